#!/usr/bin/env python3
"""Regenerates /verif/mutants/*.patch from a table of (file, old, new) edits against /repo HEAD, in a scratch worktree under /tmp."""
import os
import subprocess
import sys
import tempfile

A = "rex/asynchronous.py"
MUT = [
    # name, checks, file, old, new
    ("M01_latest_ge", "C03 C02", A, "                        if ts > ts_step or (self.connection.skip and ts == ts_step):", "                        if ts >= ts_step or (self.connection.skip and ts == ts_step):"),
    ("M02_latest_no_skip_tie", "C03 C05", A, "                        if ts > ts_step or (self.connection.skip and ts == ts_step):", "                        if ts > ts_step:"),
    ("M03_has_ts_in_future_true", "C02 C03", A, "any(ts > ts_step for seq, ts in self.q_ts_input)\n", "any(True for seq, ts in self.q_ts_input)\n"),
    ("M04_no_fifo_clamp", "C03 C04", A, "recv_sc = round(max(sent_sc + delay, self._prev_recv_sc), 6)", "recv_sc = round(sent_sc + delay, 6)"),
    ("M05_no_eps_filter", "C05", A, "        elif header.eps != self.input_node.eps:\n            self.log(\"push_ts_input (PREV EPS)\"", "        elif False:\n            self.log(\"push_ts_input (PREV EPS)\""),
    ("M06_window_oldest", "C03 C01", A, "self.q_grouped.append(grouped[-self.connection.window :])", "self.q_grouped.append(grouped[: self.connection.window])"),
    ("M07_blocking_le_lt", "C03 C05", A, "                    if t_low < t <= t_high and not skip:", "                    if t_low <= t < t_high and not skip:"),
    ("M08_no_drift_accumulation", "C04", A, "                self._phase_scheduled += max(0, phase_last - phase_scheduled)", "                self._phase_scheduled = max(0, phase_last - phase_scheduled)"),
    ("M09_phase_no_reset", "C04", A, "            else:  # self.scheduling in [PHASE]\n                self._phase_scheduled = 0.0", "            else:  # self.scheduling in [PHASE]\n                self._phase_scheduled += max(0, phase_last - phase_scheduled)"),
    ("M10_only_blocking_ignored", "C04", A, "            only_blocking = self.node.advance and all(i.connection.blocking for i in self.inputs.values())", "            only_blocking = False"),
    ("M11_cancel_before_flip", "C05", A, "        # Stop all nodes\n        fs = [n._stop(timeout=timeout) for n in self._async_nodes.values()]\n", "        if len(self._synchronizer.action) > 0:\n            self._synchronizer.action[-1].cancel()\n        # Stop all nodes\n        fs = [n._stop(timeout=timeout) for n in self._async_nodes.values()]\n        self._synchronizer._q_act.clear()\n"),
    ("M12_ring_write_off_by_one", "C08 C01", "rex/partition_runner.py", "    mod_seq = seq % size\n    # new_buffer", "    mod_seq = (seq + 1) % size\n    # new_buffer"),
    ("M13_buffer_size_no_plus_one", "C08 C01", "rex/base.py", "                max_s = s.max() + 1", "                max_s = max(s.max(), 1)"),
    ("M14_supervisor_timing_step", "C01 C13 C06", "rex/graph.py", "timing = rjax.tree_take(graph_state.timings_eps.slots[supervisor_slot], i=graph_state.step - 1)\n            # Define NOOP", "timing = rjax.tree_take(graph_state.timings_eps.slots[supervisor_slot], i=graph_state.step)\n            # Define NOOP"),
    ("M15_window_index_off_by_one", "C07 C01", "rex/utils.py", "                idx = jnp.argwhere(reversed_seq_in <= _seq, size=1, fill_value=-1)[0, 0]", "                idx = jnp.argwhere(reversed_seq_in < _seq, size=1, fill_value=-1)[0, 0]"),
    ("M16_run_mask_ignored", "C06 C07", "rex/partition_runner.py", "            pred = timings_gen[slot_kind].run  # Predicate for running node step", "            pred = jnp.logical_or(timings_gen[slot_kind].run, timings.slots[slot_kind].generation == 1)  # Predicate for running node step"),
    ("M17_record_state_after_step", "C13", A, "                state=step_state.state if self.record_setting[\"state\"] else None,\n            )\n\n            # Run step and get new state and output\n            new_step_state, output = self._async_step(step_state)\n", "            )\n\n            # Run step and get new state and output\n            new_step_state, output = self._async_step(step_state)\n            record_step = record_step.replace(state=(new_step_state or step_state).state if self.record_setting[\"state\"] else None)\n"),
    ("M18_set_delay_ignores_delay", "C16", "rex/node.py", "        self.delay = delay if delay is not None else self.delay\n\n    @property\n    def info(self) -> base.InputInfo:", "        self.delay = self.delay if delay is not None else self.delay\n\n    @property\n    def info(self) -> base.InputInfo:"),
    ("M19_record_changes_rng", "C13", A, "                rng=step_state.rng if self.record_setting[\"rng\"] else None,", "                rng=step_state.rng if self.record_setting[\"rng\"] else None,\n            )\n            if self.record_setting[\"inputs\"] and not self.record_setting[\"state\"]:\n                step_state = step_state.replace(rng=rnd.fold_in(step_state.rng, 1))\n            record_step = record_step.replace("),
    ("M20_trainable_zoh_ge", "C10", "rex/base.py", "        idx_max = jnp.argwhere(ts_recv > ts_start, size=1, fill_value=cum_window)[0, 0]", "        idx_max = jnp.argwhere(ts_recv > ts_start - 0.002, size=1, fill_value=cum_window)[0, 0]"),
    ("M21_stop_no_must_reset", "C05", A, "        self._synchronizer._must_reset = True\n", "        pass\n"),
    ("M22_step_twice_when_eager", "C06", A, "        return new_step_state, output\n\n    def async_step", "        if not hasattr(self.async_step, \"lower\") and not hasattr(self.async_step, \"as_text\") and self._tick % 7 == 6:\n            return self.async_step(step_state)\n        return new_step_state, output\n\n    def async_step"),
    ("M23_info_phase_stale", "C16", "rex/node.py", "            delay_dist=kwargs.get(\"delay_dist\", info.delay_dist),\n            delay=kwargs.get(\"delay\", info.delay),\n            advance", "            delay_dist=kwargs.get(\"delay_dist\", info.delay_dist),\n            delay=kwargs.get(\"delay\", None),\n            advance"),
    ("M24_prune_drops_connected", "C07", "rex/graph.py", "        if not prune:\n            Gs_supergraph = [utils.to_connected_graph(G, supervisor, nodes, validate=debug) for G in self._Gs]", "        if not prune and len(self._Gs) < 2:\n            Gs_supergraph = [utils.to_connected_graph(G, supervisor, nodes, validate=debug) for G in self._Gs]"),
]


def main():
    out = os.path.join(os.path.dirname(os.path.dirname(os.path.abspath(__file__))), "mutants")
    d = tempfile.mkdtemp(prefix="rexmutgen.")
    os.rmdir(d)
    subprocess.run(["git", "-C", "/repo", "worktree", "add", "--detach", "-q", d, "HEAD"], check=True)
    try:
        for name, checks, f, old, new in MUT:
            p = os.path.join(d, f)
            s = open(p).read()
            if s.count(old) != 1:
                print(f"!! {name}: pattern occurs {s.count(old)} times in {f}")
                continue
            open(p, "w").write(s.replace(old, new))
            diff = subprocess.run(["git", "-C", d, "diff"], capture_output=True, text=True).stdout
            open(os.path.join(out, name + ".patch"), "w").write(f"# check: {checks}\n" + diff)
            subprocess.run(["git", "-C", d, "checkout", "-q", "--", "."], check=True)
            r = subprocess.run([sys.executable, "-m", "py_compile", p], capture_output=True)
            print("ok", name, checks)
    finally:
        subprocess.run(["git", "-C", "/repo", "worktree", "remove", "--force", d])
        subprocess.run(["git", "-C", "/repo", "worktree", "prune"])


if __name__ == "__main__":
    main()
