"""Calibration of rule 9 of the supported class S (DESIGN 3.1): directed family around the look-ahead bound. Run: PYTHONHASHSEED=0 REX_VERIF=1 /venv/bin/python tools/calib_rule9.py"""
import sys, json, os, random
sys.path.insert(0,'/verif')
from simrex import seams
seams.configure_env(); seams.install()
from simrex import driver, spec as sp
mk = sp.lookahead_chain
for R,r in ((24,8),(30,10),(20,10),(16,16)):
  for hops in (2,3,4,5,6):
    for dfrac in (0.5,1.0):
      for adv in (False,True):
        spec=mk(R,r,hops,dfrac,adv)
        ph=sp.expected_phases(spec)
        x=R*(ph[hops]-ph[0])
        rr=random.Random(1)
        ep=driver.gen_episode(rr,0,api="gym",open_loop=False,nsteps=12,endings=("stop",),override_p=0.0,faults=False)
        ep["strategy"]={"name":"rr"}; ep["rtf"]=0
        plan=dict(spec=spec, seed=1, episodes=[ep], clock="sim", line_rate=0.0)
        ro=driver.execute(plan)
        print(f"R={R} r={r} hops={hops} dfrac={dfrac} adv={adv} x={x:.2f} inS={sp.in_S(spec) is None} -> {ro.status}", flush=True)
