"""Calibration of rule 9 of the supported class S (DESIGN 3.1): directed family around the look-ahead bound. Run: PYTHONHASHSEED=0 REX_VERIF=1 /venv/bin/python tools/calib_rule9.py"""
import sys, json, os, random
sys.path.insert(0,'/verif')
from simrex import seams
seams.configure_env(); seams.install()
from simrex import driver, spec as sp
def mk(R, r, hops, dfrac, adv=False, jit="L"):
    nodes=[dict(name="n0", rate=R, dist=["det", round(0.2/R,6)], delay=None, sched="P", advance=False, jit=True)]
    conns=[]
    for i in range(1,hops+1):
        nodes.append(dict(name=f"n{i}", rate=r, dist=["det", round(dfrac/r,6)], delay=None, sched="P", advance=adv and i==hops, jit=True))
        conns.append(dict(dst=i, src=i-1, blocking=True, skip=False, jitter="L", window=1, dist=["det",0.0], delay=None))
    conns.append(dict(dst=0, src=hops, blocking=False, skip=True, jitter=jit, window=1, dist=["det",0.0], delay=None))
    spec=dict(nodes=nodes, conns=conns, sup=0, tie=False, open_loop=False)
    return spec
for R,r in ((24,8),(30,10),(20,10),(16,16)):
  for hops in (2,3,4,5,6):
    for dfrac in (0.5,1.0):
      for adv in (False,True):
        spec=mk(R,r,hops,dfrac,adv)
        ph=sp.expected_phases(spec)
        x=R*(ph[hops]-ph[0])
        rr=random.Random(1)
        ep=driver.gen_episode(rr,0,api="gym",open_loop=False,nsteps=12,endings=("stop",),override_p=0.0,faults=False)
        ep["strategy"]={"name":"rr"}; ep["rtf"]=0
        plan=dict(spec=spec, seed=1, episodes=[ep], clock="sim", line_rate=0.0)
        ro=driver.execute(plan)
        print(f"R={R} r={r} hops={hops} dfrac={dfrac} adv={adv} x={x:.2f} inS={sp.in_S(spec) is None} -> {ro.status}", flush=True)
