#!/bin/bash
# usage: tools/verify_seeded.sh <ID> <outdir-with-patch.diff-demo.py-meta.json> [--tests]
# Confirms, in a scratch worktree outside /repo and /verif: patch applies, demo fails with it and passes without it, (optionally) the test suite still passes.
ID=$1; SRC=$2; TESTS=${3:-}
DST=/verif/seeded/$ID; mkdir -p $DST
cp -n $SRC/patch.diff $SRC/demo.py $SRC/meta.json $DST/ 2>/dev/null
W=$(mktemp -d /tmp/seedchk.XXXXXX); rmdir $W
git -C /repo worktree add --detach -q $W HEAD || exit 2
trap "git -C /repo worktree remove --force $W 2>/dev/null; git -C /repo worktree prune" EXIT
LOG=$DST/verify.log; : > $LOG
echo "repo HEAD $(git -C /repo rev-parse --short HEAD)" >> $LOG
( cd $W && PYTHONPATH=$W timeout 600 /venv/bin/python $DST/demo.py > $W/.demo_clean.out 2>&1; echo "demo on clean tree: exit $?" >> $LOG; tail -3 $W/.demo_clean.out | cut -c1-300 >> $LOG )
if ! git -C $W apply $DST/patch.diff; then echo "PATCH DOES NOT APPLY" >> $LOG; cat $LOG; exit 3; fi
( cd $W && PYTHONPATH=$W timeout 600 /venv/bin/python $DST/demo.py > $W/.demo_mut.out 2>&1; echo "demo with change: exit $?" >> $LOG; tail -4 $W/.demo_mut.out | cut -c1-300 >> $LOG )
if [ "$TESTS" = "--tests" ]; then
  ( cd $W && PYTHONPATH=$W timeout 2400 /venv/bin/python -m pytest -q -p no:cacheprovider --timeout=900 --continue-on-collection-errors > $W/.tests.out 2>&1; echo "full test suite with change: exit $? : $(tail -1 $W/.tests.out)" >> $LOG; grep "^FAILED" $W/.tests.out | cut -c1-120 >> $LOG )
fi
cat $LOG
