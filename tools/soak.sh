#!/bin/bash
# thorough-tier soak over all claimed properties (run through `vp run -- tools/soak.sh [budget_s]`)
B=${1:-900}
export SIMREX_JAX_CACHE=/verif/.cache/jax
for c in C05 C02 C03 C04 C06 C13 C01 C08 C07 C10 C16; do
  echo "=== $c $(date +%T)"
  ./check $c --tier thorough --budget $B --seed $((RANDOM * 7 + 11)) 2>&1 | grep -v "^\[$c\] seed=.*status=skipped" | tail -15
done
