#!/bin/bash
# usage: tools/with_patch.sh <patch-file> <check args...>
# Applies a patch to a scratch worktree of /repo (outside /repo and /verif), runs ./check against it, removes the worktree.
set -u
PATCH=$(readlink -f "$1"); shift
DIR=$(mktemp -d /tmp/rexmut.XXXXXX)
rmdir "$DIR"
git -C /repo worktree add --detach -q "$DIR" HEAD || exit 2
cleanup() { git -C /repo worktree remove --force "$DIR" 2>/dev/null; rm -rf "$DIR"; git -C /repo worktree prune; }
trap cleanup EXIT
if ! git -C "$DIR" apply "$PATCH"; then echo "PATCH-DOES-NOT-APPLY $PATCH"; exit 3; fi
cd /verif
REX_VERIF_REPO="$DIR" SIMREX_JAX_CACHE="${SIMREX_JAX_CACHE:-/verif/.cache/jax}" SIMREX_EVIDENCE_DIR="$DIR/.evidence" ./check "$@"
rc=$?
echo "with_patch: $(basename $PATCH) -> exit $rc"
exit $rc
