"""C06 - every scheduled step executes the user's step function exactly once (both runtimes)."""
from __future__ import annotations

import random
import time
from collections import Counter

import numpy as onp

from simrex import compiled, driver, probes
from . import common

ID = "C06"


def make_plan(seed: int, tier: str, opts: dict) -> dict:
    r = random.Random(seed)
    spec = common.gen_supported_spec(r, max_nodes=opts.get("max_nodes", 4))
    for nd in spec["nodes"]:
        nd["jit"] = r.random() < 0.6  # more eager nodes than elsewhere: "jit on/off per node" is in the quantifier
    fast = False
    if r.random() < opts.get("fast_sink_p", 0.15):
        from simrex import spec as _sp2

        s3 = __import__("copy").deepcopy(spec)
        _sp2.add_fast_sinks(s3, r)
        if _sp2.in_S(s3) is None:
            spec = s3
            fast = True
    n_eps = r.choice([1, 2, 2, 3])
    eps = [driver.gen_episode(r, j, open_loop=spec["open_loop"], nsteps=r.randint(2, opts.get("max_steps", 8)), endings=("stop", "stop2", "none"), override_p=0.4) for j in range(n_eps)]
    eps[-1]["ending"] = "stop"
    for j in range(1, len(eps)):
        if r.random() < 0.4 and eps[j - 1]["nsteps"] > 0:
            eps[j]["carry"] = True  # episode started from the graph state the previous one ended with (seq != 0)
    for j in range(len(eps) - 1):
        if eps[j]["ending"] == "none" and eps[j + 1]["api"] != "gym":
            eps[j]["ending"] = "stop"
    do_compiled = r.random() < opts.get("compiled_p", 0.5)
    cc = dict(mode=r.choice(compiled.MODES), prune=r.random() < 0.5, api=r.choice(["rollout_carry", "rollout_full", "run_jit", "gym_jit", "gym_override", "run_eager"])) if do_compiled else None
    for ep in eps:
        ep["until_active"] = True
    return dict(spec=spec, seed=seed, episodes=eps, clock="sim", line_rate=r.choice([0.0, 0.0, 0.01]), compile=cc)


def run_plan(plan: dict, replay=None) -> dict:
    import jax

    ro = driver.execute(plan, replay=replay)
    res = dict(plan=plan)
    if ro.status in ("harness_error", "replay_diverged", "build_error"):
        res.update(status="harness_error", detail=f"{ro.status}: {ro.harness_error or ro.detail}")
        return res
    if ro.status != "ok":
        res.update(common.summarise(ro, plan))
        res.update(status="precondition_failed", detail=f"episode did not complete ({ro.status}: {ro.detail[:300]})", decisions=ro.decisions, widths=ro.widths)
        return res
    spec = plan["spec"]
    nodes = ro.nodes
    names = [nd["name"] for nd in spec["nodes"]]
    sup_name = names[spec["sup"]]
    viol = []
    ticks = once = zero_expected = 0
    # ---- threaded half
    for eo in ro.episodes:
        cnt = Counter((names[ev["node"]], ev["seq"]) for ev in eo.trace if ev["eps"] == eo.plan["eps_id"])
        j_ = ro.episodes.index(eo)
        prev_running = j_ > 0 and ro.episodes[j_ - 1].plan.get("ending") == "none"  # its nodes keep stepping until this episode's reset() stops them
        foreign = [ev for ev in eo.trace if ev["eps"] != eo.plan["eps_id"] and not (prev_running and ev["eps"] == ro.episodes[j_ - 1].plan["eps_id"])]
        if foreign:
            viol.append(dict(clause="c06-step-executed-for-another-episode", signature="c06-foreign", episode=eo.plan["eps_id"], n=len(foreign)))
        for key, c in cnt.items():
            if c > 1:
                viol.append(dict(clause="c06-step-executed-more-than-once", signature="c06-async-multi", runtime="threaded", episode=eo.plan["eps_id"], node=key[0], tick=key[1], count=c,
                                 jit=next(nd["jit"] for nd in spec["nodes"] if nd["name"] == key[0])))
                break
        if eo.record is None:
            continue
        for n, r_ in eo.record.nodes.items():
            seqs = onp.asarray(r_.steps.seq).tolist()
            K_ = len(seqs)
            for k in seqs:
                ticks += 1
                c = cnt.get((n, k), 0)
                if n == sup_name and k in eo.overridden:
                    zero_expected += 1
                    if c != 0:
                        viol.append(dict(clause="c06-overridden-supervisor-step-executed", signature="c06-override", runtime="threaded", episode=eo.plan["eps_id"], tick=k, count=c))
                    continue
                if n == sup_name and k == K_ - 1 and c == 0:
                    continue  # the tick that was pending when stop() cancelled it: recorded without output, never stepped (DESIGN 5 C06)
                if c != 1:
                    viol.append(dict(clause="c06-recorded-step-not-executed-exactly-once", signature=f"c06-async-count{min(c, 2)}", runtime="threaded", episode=eo.plan["eps_id"], node=n, tick=k, count=c,
                                     jit=next(nd["jit"] for nd in spec["nodes"] if nd["name"] == n)))
                    break
                once += 1
        extra = [key for key in cnt if key[1] not in set(onp.asarray(eo.record.nodes[key[0]].steps.seq).tolist())]
        if extra:
            viol.append(dict(clause="c06-step-executed-but-not-recorded", signature="c06-unrecorded", episode=eo.plan["eps_id"], keys=extra[:4]))
    # ---- compiled half
    c_ticks = c_masked = 0
    cc = plan.get("compile")
    recs = [eo for eo in ro.episodes if eo.record is not None and not eo.overridden]
    if cc and recs and not viol:
        sup = nodes[sup_name]
        raw = compiled.experiment_graph([eo.record for eo in recs])
        G = compiled.build_graph(nodes, sup, raw, mode=cc["mode"], prune=cc["prune"])
        T = compiled.np_tree(G.timings)
        for e, eo in enumerate(recs):
            probes.clear_trace()
            cgs = compiled.init_state(G, eo.gs0, e)
            n = G.max_steps
            overridden = set()
            if cc["api"] == "gym_override":
                fr, fs = jax.jit(G.reset), jax.jit(G.step)
                out, ss = fr(cgs)
                rr = random.Random(plan["seed"] + e)
                for i in range(n):
                    if rr.random() < 0.5:
                        new_ss, o = probes.user_override(sup, ss)
                        overridden.add(i)
                        out, ss = fs(out, new_ss, o)
                    else:
                        out, ss = fs(out)
                jax.block_until_ready(out)
                n_part, n_sup = n + 1, n
            else:
                out, _ = compiled.drive(G, cgs, cc["api"], n)
                n_part, n_sup = (n + 1, n) if cc["api"] == "gym_jit" else (n, n)
            evs = probes.take_trace()
            cnt = Counter((names[ev["node"]], ev["seq"]) for ev in evs)
            exp = compiled.expected_runs(G, e, n_part, n_sup, sup_name)
            for i in overridden:
                exp.pop((sup_name, i), None)
            c_masked += sum(int((~v.run[e, :n_part]).sum()) for v in T.slots.values())
            for key, x in exp.items():
                c_ticks += 1
                if x != 1:
                    viol.append(dict(clause="c06-compiled-schedule-names-vertex-twice", signature="c06-comp-sched", episode=e, key=list(key), compile=cc))
                if cnt.get(key, 0) != 1:
                    viol.append(dict(clause="c06-compiled-scheduled-step-not-executed-exactly-once", signature=f"c06-comp-count{min(cnt.get(key, 0), 2)}", runtime="compiled", episode=e, node=key[0], tick=key[1],
                                     count=cnt.get(key, 0), compile=cc))
                    break
            extra = [k for k in cnt if k not in exp]
            if extra:
                viol.append(dict(clause="c06-compiled-masked-or-overridden-step-executed", signature="c06-comp-extra", runtime="compiled", episode=e, keys=[list(k) for k in extra[:4]], compile=cc))
            if viol:
                break
        jax.clear_caches()
    res.update(common.summarise(ro, plan, extra_sums=dict(ticks_checked_threaded=ticks, executed_exactly_once=once, overridden_ticks=zero_expected, ticks_checked_compiled=c_ticks, masked_slots=c_masked)))
    res["dicts"]["jit_nodes"] = dict(jit=sum(1 for nd in spec["nodes"] if nd["jit"]), eager=sum(1 for nd in spec["nodes"] if not nd["jit"]))
    if cc:
        res["dicts"]["compile_modes"] = {f"{cc['mode']}/{'prune' if cc['prune'] else 'noprune'}/{cc['api']}": 1}
    if viol:
        res.update(status="violation", violations=viol, decisions=ro.decisions, widths=ro.widths)
    else:
        res.update(status="ok", sample=dict(common.sample_of(plan, ro), compile=cc, ticks=ticks))
    return res
