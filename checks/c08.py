"""C08 - input windows read exactly the scheduled messages from the output buffers (same caveat as C07)."""
from __future__ import annotations

import random

import numpy as onp

from simrex import compiled, driver, probes
from . import common

ID = "C08"


def make_plan(seed: int, tier: str, opts: dict) -> dict:
    r = random.Random(seed)
    spec = common.gen_supported_spec(r, max_nodes=opts.get("max_nodes", 4), overrun_bias=0.7)
    if r.random() < opts.get("fast_sink_p", 0.25):
        from simrex import spec as _sp2

        s3 = __import__("copy").deepcopy(spec)
        _sp2.add_fast_sinks(s3, r)
        if _sp2.in_S(s3) is None:
            spec = s3
    elif r.random() < opts.get("leaf_p", 0.5):
        from simrex import spec as _sp

        for _ in range(20):
            s2 = __import__("copy").deepcopy(spec)
            _sp.add_leaves(s2, r)
            if _sp.in_S(s2) is None:
                spec = s2
                break
    for c in spec["conns"]:
        if r.random() < 0.4:
            c["window"] = r.randint(2, 4)
    train = None
    if r.random() < opts.get("trainable_p", 0.3):
        # one trainable-delay connection: its window is extended by ceil(rate_out * (max - min)) entries, which the ring buffers must also hold
        cands = [i for i, c in enumerate(spec["conns"]) if not c["blocking"] and c["jitter"] == "L"]
        if cands:
            ci = r.choice(cands)
            c = spec["conns"][ci]
            per_u = 1.0 / spec["nodes"][c["src"]]["rate"]
            per = min(per_u, 1.0 / spec["nodes"][c["dst"]]["rate"])
            dmin = round(per * r.choice([0.0, 0.1]), 6)
            dmax = round(dmin + per_u * r.choice([0.6, 1.0, 1.4]), 6)
            old_ = (c["dist"], c["delay"])
            c["dist"] = ["train", dmin, dmax, dmin]
            c["delay"] = round(min(per, dmin + 0.5 * (dmax - dmin)), 6)
            train = dict(conn=ci, alpha=r.choice([0.0, 0.5, 1.0, round(r.random(), 3)]))
            from simrex import spec as _sp3

            if _sp3.in_S(spec) is not None:  # (e.g. a minimum delay of 0 can close a zero-latency cycle, rule 7): leave the connection as it was
                c["dist"], c["delay"] = old_
                train = None
    n_eps = r.choice([1, 2, 3])
    eps = [driver.gen_episode(r, j, open_loop=spec["open_loop"], nsteps=r.randint(4, opts.get("max_steps", 10)), endings=("stop",), override_p=0.0, faults=False) for j in range(n_eps)]
    variants = []
    for _ in range(opts.get("variants", 2)):
        variants.append(dict(mode=r.choice(compiled.MODES), prune=r.random() < 0.5, sizes=r.choice(["auto", "auto", "min", "min", "min+1", "large", "below"]), extra_padding=r.choice([0, 0, 0, 1, 3]),
                             starting_step=r.choice([0, 0, "mid"]), api=r.choice(["rollout_carry", "run_jit", "gym_jit", "gym_override_stale"]), episode=r.randrange(n_eps)))
    for ep in eps:
        ep["until_active"] = True
    return dict(spec=spec, seed=seed, episodes=eps, clock="sim", line_rate=0.0, variants=variants, train=train)


def run_plan(plan: dict, replay=None) -> dict:
    import jax

    spec = plan["spec"]
    names = [nd["name"] for nd in spec["nodes"]]
    sup_name = names[spec["sup"]]
    res = dict(plan=plan)
    ro = driver.execute(plan, replay=replay)
    if ro.status in ("harness_error", "replay_diverged", "build_error"):
        res.update(status="harness_error", detail=f"{ro.status}: {ro.harness_error or ro.detail}")
        return res
    if ro.status != "ok":
        res.update(common.summarise(ro, plan))
        res.update(status="precondition_failed", detail=f"episode did not complete ({ro.status}: {ro.detail[:300]})", decisions=ro.decisions, widths=ro.widths)
        return res
    if any(eo.record is None for eo in ro.episodes):
        res.update(common.summarise(ro, plan))
        res.update(status="skipped", detail="record unavailable")
        return res
    nodes = ro.nodes
    sup = nodes[sup_name]
    raw = compiled.experiment_graph([eo.record for eo in ro.episodes])
    raw_np = compiled.np_tree(raw)
    viol = []
    tot = dict(instances=0, window_entries_checked=0, ring_wrap=0, negative_seq_read=0, ring_reads=0, exempt_before_start=0, user_buffer_sizes=0, extra_padding_runs=0, mid_starts=0)
    cache = {}
    for var in plan["variants"]:
        key = (var["mode"], var["prune"])
        if key not in cache:
            cache[key] = compiled.build_graph(nodes, sup, raw, mode=var["mode"], prune=var["prune"])
        G0 = cache[key]
        auto = {n: (max(v) if len(v) else 1) for n, v in G0._buffer_sizes.items()}
        kw = {}
        if var["sizes"] == "below":
            # an inadmissible user size (one producer, below what its most demanding consumer needs; where consumers differ, at least what
            # the least demanding one needs): Graph() has to refuse it - if it is accepted, the windows must still be right (oracles below)
            needs = {n: v for n, v in G0._buffer_sizes.items() if len(v) and max(v) >= 2}
            var = dict(var, extra_padding=0)
            if needs:
                rr = random.Random(plan["seed"] ^ 0xB3107)
                n_ = rr.choice(sorted(needs))
                lo = min(needs[n_]) if min(needs[n_]) < max(needs[n_]) else 1
                kw["buffer_sizes"] = {n_: rr.randint(lo, max(needs[n_]) - 1)}
                tot["inadmissible_sizes_tried"] = tot.get("inadmissible_sizes_tried", 0) + 1
                try:
                    G = compiled.build_graph(nodes, sup, raw, mode=var["mode"], prune=var["prune"], **kw)
                except compiled.CompileRaised as e:
                    if isinstance(e.__cause__, AssertionError) and "too small" in str(e.__cause__):
                        tot["inadmissible_sizes_rejected"] = tot.get("inadmissible_sizes_rejected", 0) + 1
                        continue
                    raise
                cache[("below",) + key] = G
        elif var["sizes"] != "auto":
            add = {"min": 0, "min+1": 1, "large": 7}[var["sizes"]]
            kw["buffer_sizes"] = {n: int(s) + add for n, s in auto.items()}
            tot["user_buffer_sizes"] += 1
        if var["extra_padding"]:
            kw["extra_padding"] = var["extra_padding"]
            tot["extra_padding_runs"] += 1
        if ("below",) + key in cache:
            G = cache.pop(("below",) + key)
        else:
            G = compiled.build_graph(nodes, sup, raw, mode=var["mode"], prune=var["prune"], **kw) if kw else G0
        tot["instances"] += 1
        problems, stats, positions = compiled.validate_schedule(G, raw_np, nodes, sup_name, var["prune"])
        problems = [p for p in problems if p[0] != "required-vertex-only-scheduled-beyond-horizon"]  # C07's known finding D12: nothing wrong with what *is* scheduled
        if problems:
            res.update(common.summarise(ro, plan))
            res.update(status="precondition_failed", detail=f"schedule itself is invalid (C07): {problems[0]}", decisions=ro.decisions, widths=ro.widths)
            return res
        e = var["episode"]
        # directed choice: prefer an episode in which a producer overwrites, within one generation, the slot a sibling still reads
        # (the boundary case the buffer sizing is designed for); the static probe tells where that happens
        if var["starting_step"] == 0:
            auto_sizes = {n: (max(v) if len(v) else max(1, int(kw.get("extra_padding", 0)))) for n, v in G._buffer_sizes.items()}
            for ee in range(len(positions)):
                _, st_e = compiled.ring_replay(G, raw_np, nodes, positions, episodes=[ee])
                if st_e["same_generation_read_write_same_slot"] > 0:
                    e = ee
                    tot["directed_episode_choices"] = tot.get("directed_episode_choices", 0) + 1
                    break
        P = G.max_steps + 1
        s0 = 0 if var["starting_step"] == 0 else max(1, P // 2)
        if s0:
            tot["mid_starts"] += 1
        inputs = None
        if plan.get("train"):
            cc_ = spec["conns"][plan["train"]["conn"]]
            u_, v_ = (cc_.get("name") or names[cc_["src"]]), names[cc_["dst"]]  # key of the connection in the receiver's inputs
            gi = ro.episodes[e].gs0.inputs
            i_ = gi[v_][u_]
            inputs = gi.copy({v_: gi[v_].copy({u_: i_.replace(delay_dist=i_.delay_dist.replace(alpha=plan["train"]["alpha"]))})})
            tot["trainable_instances"] = tot.get("trainable_instances", 0) + 1
        cgs = compiled.init_state(G, ro.episodes[e].gs0, e, starting_step=s0, inputs=inputs)
        sizes = {n: int(jax.tree_util.tree_leaves(b)[0].shape[0]) for n, b in cgs.buffer.items()}
        # oracle B: static ring replay with the real buffer sizes
        rp, rstats = compiled.ring_replay(G, raw_np, nodes, positions, sizes=sizes, padded=True)
        tot["ring_wrap"] += rstats["ring_wrap"]
        tot["negative_seq_read"] += rstats["negative_seq_read"]
        tot["ring_reads"] += rstats["reads"]
        tot["same_generation_read_write_same_slot"] = tot.get("same_generation_read_write_same_slot", 0) + rstats["same_generation_read_write_same_slot"]
        for p in rp[:3]:
            viol.append(dict(clause="c08-" + p[0], signature="c08-" + p[0], variant=var, detail=[str(x)[:120] for x in p[1:]], sizes=sizes))
        if rp:
            break
        # oracle A: dynamic, attributable payloads
        probes.clear_trace()
        n = max(1, G.max_steps - s0)
        sup_overridden = set()
        if var["api"] == "gym_override_stale":
            # gym-style driving in which the user overrides every supervisor step with its own (step_state, output); the step_state it passes
            # carries a stale bookkeeping seq (a stateless agent re-using the reset() state / a freshly built StepState): rex must not trust it
            import jax.numpy as jnp

            fr, fs = jax.jit(G.reset), jax.jit(G.step)
            out, ss = fr(cgs)
            for i_ in range(n):
                new_ss, o_ = probes.user_override(sup, ss)
                sup_overridden.add(int(onp.asarray(ss.seq)))
                out, ss = fs(out, new_ss.replace(seq=jnp.int32(0)), o_)
            jax.block_until_ready(out)
        else:
            out, _ = compiled.drive(G, cgs, var["api"], n)
        evs = probes.take_trace()
        produced = {names.index(sup_name): set(sup_overridden)} if sup_overridden else {}
        for ev in evs:
            produced.setdefault(ev["node"], set()).add(ev["seq"])
        for ev in evs:
            node = nodes[names[ev["node"]]]
            in_names = sorted(node.inputs.keys())
            for j, iname in enumerate(in_names):
                c = node.inputs[iname]
                pidx = names.index(c.output_node.name)
                w = ev["inputs"][j]
                for q, sq in enumerate(w["seq"]):
                    tot["window_entries_checked"] += 1
                    if w["dsrc"][q] != pidx:
                        viol.append(dict(clause="c08-window-entry-from-wrong-producer", signature="c08-src", variant=var, node=node.name, tick=ev["seq"], input=iname, got=w["dsrc"][q], expected=pidx))
                    if sq < 0:
                        if w["dseq"][q] != -1:
                            viol.append(dict(clause="c08-negative-entry-is-not-the-default-output", signature="c08-default", variant=var, node=node.name, tick=ev["seq"], input=iname, got=w["dseq"][q], sizes=sizes))
                    elif s0 and sq not in produced.get(pidx, ()):
                        tot["exempt_before_start"] += 1  # names an output emitted before the starting step: not produced in this run
                    elif w["dseq"][q] != sq or w["deps"][q] != e:
                        viol.append(dict(clause="c08-window-entry-is-not-the-scheduled-message", signature="c08-payload", variant=var, node=node.name, tick=ev["seq"], input=iname, scheduled_seq=sq,
                                         got_seq=w["dseq"][q], got_eps=w["deps"][q], sizes=sizes))
                if viol:
                    break
            if viol:
                break
        if not s0 and not viol:
            for nme in names:
                b = int(onp.asarray(out.state[nme].bad))
                if b:
                    viol.append(dict(clause="c08-probe-invariant", signature="c08-bad", variant=var, node=nme, bad=b))
        if viol:
            break
    jax.clear_caches()
    res.update(common.summarise(ro, plan, extra_sums=tot))
    res["dicts"]["probe_counts"].update(ring_wrap=tot["ring_wrap"], negative_seq_read=tot["negative_seq_read"], same_generation_read_write_same_slot=tot.get("same_generation_read_write_same_slot", 0))
    res["dicts"]["buffer_variants"] = {}
    for var in plan["variants"]:
        k = f"{var['sizes']}/pad{var['extra_padding']}/start{var['starting_step']}"
        res["dicts"]["buffer_variants"][k] = res["dicts"]["buffer_variants"].get(k, 0) + 1
    if viol:
        res.update(status="violation", violations=viol, decisions=ro.decisions, widths=ro.widths)
    else:
        res.update(status="ok", sample=dict(common.sample_of(plan, ro), variants=plan["variants"], totals=tot))
    return res
