"""C03 - recorded episodes are causal and loss-free on every connection (laws 4.1-4.4 over the recorded history)."""
from __future__ import annotations

import random

from simrex import driver, oracles
from . import common

ID = "C03"


def make_plan(seed: int, tier: str, opts: dict) -> dict:
    r = random.Random(seed)
    wall = r.random() < opts.get("wall_p", 0.0)
    spec = common.gen_supported_spec(r, max_nodes=4 if tier == "quick" else 6, tie_p=0.4)
    M = opts.get("episodes", 4)
    eps = []
    for j in range(M):
        ep = driver.gen_episode(r, j, open_loop=spec["open_loop"], nsteps=r.randint(4, 14), endings=("stop", "stop2"), override_p=0.2)
        if wall:
            ep["nsteps"] = r.randint(3, 6)
        eps.append(ep)
    for ep in eps:
        ep["until_active"] = True
    if not wall:
        common.add_reconfig(r, spec, eps)
    hot = r.choice([0.0, 0.0, 0.15, 0.4])  # pre-emption concentrated on lines touching shared lifecycle/queue fields
    plan = dict(hot_rate=hot, spec=spec, seed=seed, episodes=eps, clock="wall" if wall else "sim",
                line_rate=r.choice([0.0, 0.0025, 0.01]) if tier == "thorough" else 0.0)
    if wall:
        plan["pause_rate"] = r.choice([0.0, 0.003])  # the user thread is descheduled inside lifecycle calls while the wall clock runs on
    return plan


def judge(plan, ro, checker):
    viol, verdicts = [], []
    unavailable = 0
    for eo in ro.episodes:
        if eo.record is None:
            unavailable += 1
            continue
        v = checker(eo)
        verdicts.append(v)
        for x in v.violations:
            x["signature"] = x["clause"]
            x["episode"] = eo.plan["eps_id"]
            viol.append(x)
    return viol, verdicts, unavailable


def run_plan(plan: dict, replay=None) -> dict:
    snap = {}
    ro = driver.execute(plan, replay=replay, after_build=lambda nodes_: snap.update(common.snapshot_delays(nodes_)))
    res = dict(plan=plan)
    if ro.status in ("harness_error", "replay_diverged", "build_error"):
        res.update(status="harness_error", detail=f"{ro.status}: {ro.harness_error or ro.detail}")
        return res
    if ro.status != "ok":
        res.update(common.summarise(ro, plan))
        res.update(status="precondition_failed", detail=f"episode did not complete ({ro.status}: {ro.detail[:300]})", decisions=ro.decisions, widths=ro.widths)
        return res
    wall = plan.get("clock") == "wall"
    viol, verdicts, unavailable = judge(plan, ro, lambda eo: oracles.check_c03(eo.record, ro.nodes, common.materialise(eo.plan.get("spec_after") or plan["spec"], snap), wall=wall))
    res.update(common.summarise(ro, plan, verdicts, extra_sums=dict(record_unavailable=unavailable, episodes_judged=len(verdicts), wall_clock_runs=1 if wall else 0)))
    if viol:
        res.update(status="violation", violations=viol, decisions=ro.decisions, widths=ro.widths)
    else:
        res.update(status="ok", sample=common.sample_of(plan, ro))
    return res
