"""C01 - compiled replay reproduces the recorded asynchronous execution step for step."""
from __future__ import annotations

import random
import time

import numpy as onp

from simrex import compiled, driver, probes
from . import common

ID = "C01"
APIS = ("rollout_carry", "rollout_full", "run_jit", "gym_jit")


def make_plan(seed: int, tier: str, opts: dict) -> dict:
    r = random.Random(seed)
    spec = common.gen_supported_spec(r, max_nodes=opts.get("max_nodes", 4), tie_p=0.3, overrun_bias=0.7)
    fast = False
    if r.random() < opts.get("fast_sink_p", 0.15):
        from simrex import spec as _sp2

        s3 = __import__("copy").deepcopy(spec)
        _sp2.add_fast_sinks(s3, r)
        if _sp2.in_S(s3) is None:
            spec = s3
            fast = True
    train = None
    if r.random() < opts.get("trainable_p", 0.15):
        # a trainable-delay connection whose delay is set through init_delays (params): the threaded runtime delays the messages by d, and
        # the compiled replay must apply the same d (it is carried in the graph state, not in the connection object)
        cands = [i for i, c_ in enumerate(spec["conns"]) if not c_["blocking"] and c_["jitter"] == "L"]
        if cands:
            ci = r.choice(cands)
            c_ = spec["conns"][ci]
            per_u = 1.0 / spec["nodes"][c_["src"]]["rate"]
            per = min(per_u, 1.0 / spec["nodes"][c_["dst"]]["rate"])
            dmin = round(per * r.choice([0.0, 0.1]), 6)
            dmax = round(dmin + per_u * r.choice([0.6, 1.0, 1.4]), 6)
            old_ = (c_["dist"], c_["delay"])
            c_["dist"] = ["train", dmin, dmax, round(dmin + r.random() * (dmax - dmin), 6)]
            c_["delay"] = round(min(per, dmin + 0.5 * (dmax - dmin)), 6)
            train = dict(conn=ci, d=round(dmin + r.random() * (dmax - dmin), 6))
            from simrex import spec as _sp3

            if _sp3.in_S(spec) is not None:  # (e.g. a minimum delay of 0 can close a zero-latency cycle, rule 7): leave the connection as it was
                c_["dist"], c_["delay"] = old_
                train = None
    n_eps = r.choice([1, 2, 2, 3])
    eps = [driver.gen_episode(r, j, open_loop=spec["open_loop"], nsteps=r.randint(3, opts.get("max_steps", 9)), endings=("stop",), override_p=0.0) for j in range(n_eps)]
    pairs = [(m, p) for m in compiled.MODES for p in (True, False)]
    r.shuffle(pairs)
    if fast:
        eps = eps[:2]
        for ep in eps:
            ep["nsteps"] = min(ep["nsteps"], 5)  # many vertices per partition already
        if pairs[0][0] == "mcs":
            pairs[0] = (r.choice(["gen", "top"]), pairs[0][1])  # the uniform (scan) execution paths are what many slots per kind stress
    for ep in eps:
        ep["until_active"] = True
        if r.random() < opts.get("mid_record_p", 0.15):
            ep["mid_record"] = r.randrange(1, max(2, ep["nsteps"]))  # the record is also fetched once in the middle of the episode
    wall = r.random() < opts.get("wall_p", 0.15) and train is None  # recordings made under WALL_CLOCK (virtual clock) must replay just the same
    # (not combined with a trainable delay: under the wall clock messages arrive when they arrive, a trainable delay only exists in the compiled replay)
    if wall:
        for ep in eps:
            ep["nsteps"] = min(ep["nsteps"], 6)
            ep["rtf"] = 1
    return dict(spec=spec, seed=seed, episodes=eps, train=train, hash_recv=train is None, clock="wall" if wall else "sim", line_rate=0.0, compile=[dict(mode=m, prune=p, api=r.choice(APIS)) for m, p in pairs[:(1 if fast else opts.get("pairs", 1))]])  # (fast sinks: one instance, XLA compile time)


def index_events(evs):
    d = {}
    dup = []
    for ev in evs:
        key = (ev["node"], ev["eps"], ev["seq"])
        if key in d:
            dup.append(key)
        d[key] = ev
    return d, dup


def compare_events(a, c, recv_tol: float = 0.0):
    """Field-by-field comparison of an asynchronous and a compiled probe event of the same (node, eps, seq).
    recv_tol > 0: receive times are compared with that tolerance (trainable-delay connections: the threaded runtime rounds sent + d to
    1 us in float64, the compiled runtime recomputes sent + d in float32; both mean the same instant)."""
    for f in ("ts", "rng", "h0"):
        if a[f] != c[f]:
            return f, a[f], c[f]
    if len(a["inputs"]) != len(c["inputs"]):
        return "n_inputs", len(a["inputs"]), len(c["inputs"])
    for j, (ia, ic) in enumerate(zip(a["inputs"], c["inputs"])):
        if ia["seq"] != ic["seq"]:
            return f"input{j}.seq", ia["seq"], ic["seq"]
        real = [s >= 0 for s in ia["seq"]]
        for f in ("sent", "recv"):
            xa = [v for v, r_ in zip(ia[f], real) if r_]
            xc = [v for v, r_ in zip(ic[f], real) if r_]
            if xa != xc:
                if f == "recv" and recv_tol > 0:
                    fa = onp.asarray(xa, dtype=onp.uint32).view(onp.float32).astype(float)
                    fc = onp.asarray(xc, dtype=onp.uint32).view(onp.float32).astype(float)
                    if len(fa) == len(fc) and onp.all(onp.abs(fa - fc) <= recv_tol):
                        continue
                return f"input{j}.{f}", xa, xc
        for f in ("dsrc", "deps", "dseq", "dh"):
            if ia[f] != ic[f]:
                return f"input{j}.{f}", ia[f], ic[f]
    if a["h1"] != c["h1"]:
        return "h1", a["h1"], c["h1"]
    return None


def run_plan(plan: dict, replay=None) -> dict:
    import jax

    hook = None
    if plan.get("train"):
        from simrex import spec as _sp

        def hook(nodes_):
            c_ = plan["spec"]["conns"][plan["train"]["conn"]]
            dst = plan["spec"]["nodes"][c_["dst"]]["name"]
            nodes_[dst].delay_override = {_sp.input_name(plan["spec"], c_): plan["train"]["d"]}

    ro = driver.execute(plan, replay=replay, after_build=hook)
    res = dict(plan=plan)
    if ro.status in ("harness_error", "replay_diverged", "build_error"):
        res.update(status="harness_error", detail=f"{ro.status}: {ro.harness_error or ro.detail}")
        return res
    if ro.status != "ok" or any(eo.record is None for eo in ro.episodes):
        res.update(common.summarise(ro, plan))
        if ro.status == "ok":
            res.update(status="skipped", detail="record unavailable (a node without recorded step / message)", sums=dict(record_unavailable=1))
            return res
        res.update(status="precondition_failed", detail=f"episode did not complete ({ro.status}: {ro.detail[:300]})", decisions=ro.decisions, widths=ro.widths)
        return res
    nodes = ro.nodes
    spec = plan["spec"]
    sup = nodes[spec["nodes"][spec["sup"]]["name"]]
    idx2name = {i: nd["name"] for i, nd in enumerate(spec["nodes"])}
    viol = []
    t0 = time.time()
    raw = compiled.experiment_graph([eo.record for eo in ro.episodes])
    a_events = [index_events(eo.trace)[0] for eo in ro.episodes]
    compared = matched = 0
    graph_s = run_s = 0.0
    stats = dict(compiled_instances=0, compiled_episodes=0)
    for cc in plan["compile"]:
        t1 = time.time()
        G = compiled.build_graph(nodes, sup, raw, mode=cc["mode"], prune=cc["prune"])
        graph_s += time.time() - t1
        stats["compiled_instances"] += 1
        P = G.max_steps + 1
        for e, eo in enumerate(ro.episodes):
            probes.clear_trace()
            cgs = compiled.init_state(G, eo.gs0, e, record=dict(params=True, rng=True, inputs=True, state=True, output=True))
            t2 = time.time()
            try:
                out, obs = compiled.drive(G, cgs, cc["api"], G.max_steps)
            except compiled.DriveRaised as ex:
                viol.append(dict(clause="c01-compiled-replay-raised", signature="c01-raised", episode=e, compile=cc, detail=str(ex)[-600:]))
                break
            run_s += time.time() - t2
            c_evs = probes.take_trace()
            c_idx, dup = index_events(c_evs)
            stats["compiled_episodes"] += 1
            if dup:
                viol.append(dict(clause="c01-compiled-step-executed-twice", signature="c01-dup", episode=e, keys=dup[:4], compile=cc))
            n_a = len(a_events[e])
            for key, cev in c_idx.items():
                aev = a_events[e].get(key)
                if aev is None:
                    name = idx2name[key[0]]
                    last_sup = name == sup.name and key[2] >= len(eo.record.nodes[name].steps.seq) - 1
                    if not last_sup:
                        viol.append(dict(clause="c01-compiled-step-without-asynchronous-counterpart", signature="c01-extra", episode=e, node=name, seq=key[2], compile=cc))
                    continue
                compared += 1
                d = compare_events(aev, cev, recv_tol=2e-6 if plan.get("train") else 0.0)
                if d is not None:
                    viol.append(dict(clause="c01-step-differs-between-runtimes", signature="c01-diff:" + d[0].split(".")[-1], episode=e, node=idx2name[key[0]], seq=key[2], field=d[0],
                                     asynchronous=str(d[1])[:200], compiled=str(d[2])[:200], compile=cc))
                    break
                matched += 1
            # probe invariants inside the compiled run
            for n in nodes:
                bad = int(onp.asarray(out.state[n].bad))
                if bad:
                    viol.append(dict(clause="c01-compiled-probe-invariant", signature="c01-bad", episode=e, node=n, bad=bad, compile=cc))
            # redundantly: rex's own two records agree on the rows the compiled run executed
            crec = out.aux.get("record")
            for n in (nodes if crec is not None else ()):
                cs, as_ = crec.nodes[n].steps, eo.record.nodes[n].steps
                cseq = onp.asarray(cs.seq)
                ran = onp.nonzero(cseq >= 0)[0]
                m = [k for k in ran if k < len(onp.asarray(as_.seq))]
                if not m:
                    continue
                m = onp.asarray(m)
                ah, ch = onp.asarray(as_.state.h)[m], onp.asarray(cs.state.h)[m]
                if not onp.array_equal(ah, ch):
                    k = int(m[onp.nonzero(ah != ch)[0][0]])
                    viol.append(dict(clause="c01-recorded-state-differs", signature="c01-rec-state", episode=e, node=n, seq=k, compile=cc))
                ats, cts = onp.asarray(as_.ts_start, dtype=onp.float32)[m], onp.asarray(cs.ts_start, dtype=onp.float32)[m]
                if not onp.array_equal(ats, cts):
                    viol.append(dict(clause="c01-recorded-start-time-differs", signature="c01-rec-ts", episode=e, node=n, compile=cc))
            if viol:
                break
        if viol:
            break
    jax.clear_caches()
    res.update(common.summarise(ro, plan, extra_sums=dict(trainable_runs=1 if plan.get("train") else 0, wall_clock_runs=1 if plan.get("clock") == "wall" else 0, steps_compared=compared, steps_identical=matched, graph_build_s=graph_s, compiled_run_s=run_s, **stats)))
    res["dicts"]["compile_modes"] = {}
    for cc in plan["compile"]:
        k = f"{cc['mode']}/{'prune' if cc['prune'] else 'noprune'}/{cc['api']}"
        res["dicts"]["compile_modes"][k] = res["dicts"]["compile_modes"].get(k, 0) + 1
    res["dicts"]["fault_counts"]["ragged"] = 1 if len({e["nsteps"] for e in plan["episodes"]}) > 1 else 0
    if viol:
        res.update(status="violation", violations=viol, decisions=ro.decisions, widths=ro.widths)
    else:
        res.update(status="ok", sample=dict(common.sample_of(plan, ro), compile=plan["compile"], steps_compared=compared))
    return res
