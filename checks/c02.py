"""C02 - simulated-clock episodes are deterministic across thread schedules, speed, load and driving API."""
from __future__ import annotations

import random

from simrex import driver, oracles
from . import common

ID = "C02"


def make_plan(seed: int, tier: str, opts: dict) -> dict:
    r = random.Random(seed)
    spec = common.gen_supported_spec(r, max_nodes=4 if tier == "quick" else 6)
    M = opts.get("variants", 6)
    nsteps = r.randint(4, 10)
    ref = dict(eps_id=0, api="gym", nsteps=nsteps, ending="stop", rtf=1 if spec["open_loop"] else 0, strategy={"name": "rr"}, sseed=1, fair_k=64, stall_p=0.0, stall_max=0.0)
    eps = [ref]
    for j in range(M):
        ep = driver.gen_episode(r, 0, open_loop=spec["open_loop"], nsteps=max(2, nsteps + r.randint(-2, 2)), endings=("stop", "stop2"), override_p=0.0)
        mode = r.random()
        if ep["api"] == "gym" and mode < 0.35:
            ep["pass_own_result"] = True
        eps.append(ep)
    if r.random() < opts.get("free_run_p", 0.12):
        # "free-running sender" family: a source that does not depend on the supervisor feeds it over a non-blocking connection; throttled far
        # faster than real time while the user is slow, the sender gets hundreds of outputs (and announced timestamps) ahead of the receiver.
        # Queues that hold announced timestamps / messages must not lose anything however long they grow.
        spec, eps = _free_run(r)
    fresh = dict(driver.gen_episode(r, 0, api="gym", open_loop=spec["open_loop"], nsteps=nsteps, endings=("stop",), override_p=0.0), until_active=False) if r.random() < opts.get("fresh_p", 0.3) else None
    hot = r.choice([0.0, 0.0, 0.15, 0.4])  # pre-emption concentrated on lines touching shared lifecycle/queue fields
    plan = dict(hot_rate=hot, fresh=fresh, spec=spec, seed=seed, episodes=eps, clock="sim", line_rate=r.choice([0.0, 0.0025, 0.01, 0.04]) if tier == "thorough" else r.choice([0.0, 0.0, 0.01]))
    if plan["hot_rate"] > 0 or plan["line_rate"] > 0:
        # (line tracing is on anyway) the OS may also deschedule the user thread for a while in the middle of a lifecycle call: virtual time
        # passes, which a simulated-clock record must not show, throttled or not
        plan["pause_rate"] = r.choice([0.0, 0.002, 0.006])
    return plan


def _free_run(r: random.Random):
    from simrex import spec as sp

    R = r.choice([20.0, 24.0, 30.0])
    rs = R / r.choice([1, 2, 3])
    def dist(per):
        return r.choice([["det", sp._r6(per * r.choice([0.0, 0.1, 0.3]))], ["mix", [sp._r6(per * 0.1), sp._r6(per * r.choice([0.6, 1.1]))], [0.7, 0.3]]])
    def mk_node(i, rate):
        d = dist(1.0 / rate)
        return dict(name=f"n{i}", rate=rate, dist=d, delay=sp._r6(min(sp.dist_max(d), 1.0 / rate)) if d[0] != "det" else None, sched=r.choice(["F", "P"]), advance=False, jit=True)
    def mk_conn(dst, src, rates, **kw):
        per = min(1.0 / rates[dst], 1.0 / rates[src])
        d = dist(per)
        c = dict(dst=dst, src=src, blocking=False, skip=False, jitter=r.choice(["L", "L", "B"]), window=r.randint(1, 3), dist=d, delay=sp._r6(min(sp.dist_max(d), per)) if d[0] != "det" else None)
        c.update(kw)
        return c
    rates = [R, rs]
    nodes = [mk_node(0, R), mk_node(1, rs)]
    conns = [mk_conn(1, 0, rates)]
    if r.random() < 0.5:
        rates.append(rs * r.choice([1, 2]))
        nodes.append(mk_node(2, rates[2]))
        conns.append(mk_conn(2, 1, rates, blocking=r.random() < 0.5))
        conns.append(mk_conn(1, 2, rates, skip=True))
    spec = dict(nodes=nodes, conns=conns, sup=1, tie=False, allow_source=True, open_loop=True)
    sp._repair(spec)
    assert sp.in_S(spec) is None, sp.in_S(spec)
    n = r.randint(16, 24)
    ref = dict(eps_id=0, api="gym", nsteps=n, ending="stop", rtf=1, strategy={"name": "rr"}, sseed=1, fair_k=64, stall_p=0.0, stall_max=0.0)
    eps = [ref]
    for j in range(3):
        ep = driver.gen_episode(r, 0, open_loop=True, nsteps=n, endings=("stop",), override_p=0.0, rtf_choices=(20, 50))
        ep["slow_user"] = [0.0] * (n + 3)
        for k in r.sample(range(1, 6), 3):
            ep["slow_user"][k] = r.choice([0.2, 0.4])  # the sender produces rate * rtf * pause outputs meanwhile (80-600)
        eps.append(ep)
    return spec, eps


def run_plan(plan: dict, replay=None) -> dict:
    ro = driver.execute(plan, replay=replay)
    res = dict(plan=plan)
    if ro.status in ("harness_error", "replay_diverged", "build_error"):
        res.update(status="harness_error", detail=f"{ro.status}: {ro.harness_error or ro.detail}")
        return res
    if ro.status != "ok":
        res.update(common.summarise(ro, plan))
        res.update(status="precondition_failed", detail=f"episode did not complete ({ro.status}: {ro.detail[:300]}); C02's oracle needs completed episodes", decisions=ro.decisions, widths=ro.widths)
        return res
    sup = plan["spec"]["nodes"][plan["spec"]["sup"]]["name"]
    viol = []
    canon = []
    unavailable = 0
    for eo in ro.episodes:
        if eo.record is None:
            unavailable += 1
            canon.append(None)
        else:
            canon.append(oracles.canon_episode(eo.record, ro.nodes))
    ref_i = next((i for i, c in enumerate(canon) if c is not None), None)
    compared = 0
    if ref_i is not None:
        for i, c in enumerate(canon):
            if c is None or i == ref_i:
                continue
            compared += 1
            diffs = oracles.compare_prefix(canon[ref_i], c, skip_last_output_of=sup)
            if diffs:
                viol.append(dict(clause="c02-record-differs-between-schedules", signature="c02-record", ref_episode=ref_i, episode=i, variant={k: v for k, v in ro.episodes[i].plan.items() if k != "slow_user"},
                                 diff=diffs[0]))
    # what the supervisor observed (gym episodes)
    ref_obs = None
    for i, eo in enumerate(ro.episodes):
        if eo.plan["api"] != "gym":
            continue
        if ref_obs is None:
            ref_obs = (i, eo.obs)
            continue
        m = min(len(ref_obs[1]), len(eo.obs))
        for k in range(m):
            if ref_obs[1][k] != eo.obs[k]:
                viol.append(dict(clause="c02-supervisor-observation-differs", signature="c02-obs", ref_episode=ref_obs[0], episode=i, index=k, a=str(ref_obs[1][k])[:400], b=str(eo.obs[k])[:400]))
                break
    # the same spec and initial state on a *fresh* graph object (new threads, new warm-up) must give the same episode as well
    fresh_cmp = 0
    if plan.get("fresh") and ref_i is not None and not viol:
        ro2 = driver.execute(dict(plan, episodes=[plan["fresh"]], hot_rate=0.0, line_rate=0.0))
        if ro2.status == "ok" and ro2.episodes[0].record is not None:
            fresh_cmp = 1
            diffs = oracles.compare_prefix(canon[ref_i], oracles.canon_episode(ro2.episodes[0].record, ro2.nodes), skip_last_output_of=sup)
            if diffs:
                viol.append(dict(clause="c02-record-differs-on-a-fresh-graph", signature="c02-fresh", ref_episode=ref_i, diff=diffs[0]))
            if ref_obs is not None:
                m = min(len(ref_obs[1]), len(ro2.episodes[0].obs))
                if ref_obs[1][:m] != ro2.episodes[0].obs[:m]:
                    viol.append(dict(clause="c02-supervisor-observation-differs-on-a-fresh-graph", signature="c02-fresh-obs"))
    res.update(common.summarise(ro, plan, extra_sums=dict(variants_compared=compared, record_unavailable=unavailable, fresh_graph_comparisons=fresh_cmp)))
    apis = {}
    for eo in ro.episodes:
        key = eo.plan["api"] + ("+own" if eo.plan.get("pass_own_result") else "")
        apis[key] = apis.get(key, 0) + 1
    res["dicts"]["driving_api"] = apis
    res["dicts"]["rtf"] = {}
    for eo in ro.episodes:
        res["dicts"]["rtf"][str(eo.plan.get("rtf", 0))] = res["dicts"]["rtf"].get(str(eo.plan.get("rtf", 0)), 0) + 1
    if viol:
        res.update(status="violation", violations=viol, decisions=ro.decisions, widths=ro.widths)
    else:
        res.update(status="ok", sample=common.sample_of(plan, ro))
    return res
