"""C04 - step start times obey the documented rate / phase / delay / scheduling law (4.5), re-evaluated from the record."""
from __future__ import annotations

import random

from simrex import driver, oracles
from . import common
from .c03 import judge

ID = "C04"


def make_plan(seed: int, tier: str, opts: dict) -> dict:
    r = random.Random(seed)
    spec = common.gen_supported_spec(r, max_nodes=4 if tier == "quick" else 6, tie_p=0.25, overrun_bias=0.8)
    M = opts.get("episodes", 3)
    eps = [driver.gen_episode(r, j, open_loop=spec["open_loop"], nsteps=r.randint(6, 16), endings=("stop",), override_p=0.1) for j in range(M)]
    common.add_reconfig(r, spec, eps)
    for ep in eps:
        ep["until_active"] = True
    return dict(spec=spec, seed=seed, episodes=eps, clock="sim", line_rate=0.0)


def run_plan(plan: dict, replay=None) -> dict:
    snap = {}
    ro = driver.execute(plan, replay=replay, after_build=lambda nodes_: snap.update(common.snapshot_delays(nodes_)))
    res = dict(plan=plan)
    if ro.status in ("harness_error", "replay_diverged", "build_error"):
        res.update(status="harness_error", detail=f"{ro.status}: {ro.harness_error or ro.detail}")
        return res
    if ro.status != "ok":
        res.update(common.summarise(ro, plan))
        res.update(status="precondition_failed", detail=f"episode did not complete ({ro.status}: {ro.detail[:300]})", decisions=ro.decisions, widths=ro.widths)
        return res
    final_spec = plan["episodes"][-1].get("spec_after") or plan["spec"]
    viol, verdicts, unavailable = judge(plan, ro, lambda eo: oracles.check_c04(eo.record, ro.nodes, common.materialise(eo.plan.get("spec_after") or plan["spec"], snap),
                                                                                live_nodes=(eo.plan.get("spec_after") or plan["spec"]) == final_spec))
    res.update(common.summarise(ro, plan, verdicts, extra_sums=dict(record_unavailable=unavailable, episodes_judged=len(verdicts))))
    kinds = {}
    for nd in plan["spec"]["nodes"]:
        k = ("advance+" if nd["advance"] else "") + nd["sched"]
        kinds[k] = kinds.get(k, 0) + 1
    res["dicts"]["node_kinds"] = kinds
    if viol:
        res.update(status="violation", violations=viol, decisions=ro.decisions, widths=ro.widths)
    else:
        res.update(status="ok", sample=common.sample_of(plan, ro))
    return res
