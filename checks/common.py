"""Shared helpers of the per-property checks."""
from __future__ import annotations

import hashlib
import json
import random

from simrex import driver, spec as sp


def h16(obj) -> str:
    return hashlib.sha256(json.dumps(obj, sort_keys=True, default=str).encode()).hexdigest()[:16]


def gen_supported_spec(rng: random.Random, **kw) -> dict:
    for _ in range(200):
        s = sp.gen_spec(rng, **kw)
        if sp.in_S(s) is None:
            return s
    raise RuntimeError("could not generate a spec in S")


def summarise(ro, plan, verdicts=(), extra_sums=None) -> dict:
    """Common statistics of a run for the aggregate / evidence."""
    st = ro.stats or {}
    counts = dict(st.get("counts") or {})
    faults = {k: counts.get(k, 0) for k in ("stall", "starve", "slow_user", "line_preempt", "hot_line_preempt", "fairness_override", "wall_comp_sleep", "carry_over_start", "drain_gave_up", "timeout_args", "reconfig_between_episodes", "mid_episode_get_record", "user_thread_pause") if counts.get(k)}
    faults["preempt"] = st.get("preempts", 0)
    strategies = {}
    sim_time = 0.0
    n_eps = 0
    for eo in ro.episodes:
        strategies[eo.plan["strategy"]["name"]] = strategies.get(eo.plan["strategy"]["name"], 0) + 1
        n_eps += 1
        if eo.plan.get("rtf", 0) > 0:
            faults["speed"] = faults.get("speed", 0) + 1
        if eo.plan.get("ending") == "none":
            faults["restart"] = faults.get("restart", 0) + 1
        if eo.plan.get("ending") == "stop2":
            faults["cancel_twice"] = faults.get("cancel_twice", 0) + 1
        if eo.record is not None:
            for n, r in eo.record.nodes.items():
                te = r.steps.ts_end
                if len(te):
                    sim_time = max(sim_time, float(te[-1]))
    probes = {k: v for k, v in counts.items() if k.startswith("stop_while_")}
    amb = 0
    judged = 0
    for v in verdicts:
        for k, x in v.probes.items():
            probes[k] = probes.get(k, 0) + x
        amb += v.ambiguous
        judged += v.judged
    sums = dict(episodes=n_eps, decisions=st.get("decisions", 0), choices=st.get("choices", 0), preemptions=st.get("preempts", 0), sim_time_s=sim_time,
                virtual_wall_s=st.get("virtual_wall_s", 0.0), ambiguous_cases=amb, law_instances_judged=judged, warm_s=ro.warm_s, run_s=ro.run_s)
    if extra_sums:
        sums.update(extra_sums)
    dec_digest = h16([ro.decisions])
    nontrivial = st.get("choices", 0) > 0 and (sum(v for k, v in faults.items()) > 0)
    out = dict(sums=sums, dicts=dict(fault_counts=faults, probe_counts=probes, strategies=strategies),
               interleavings=[dec_digest], task_orders=[h16(ro.task_seq)],
               distinct=[[sp.spec_digest(plan["spec"]), dec_digest]] if nontrivial else [],
               event_digest=st.get("digest"))
    return out


def sample_of(plan, ro, verdict="ok") -> dict:
    return dict(spec=plan["spec"], episodes=[{k: v for k, v in e.items() if k != "slow_user"} for e in plan["episodes"]], first_decisions=ro.decisions[:40],
                n_choices=len(ro.decisions), verdict=verdict,
                records={f"ep{i}": ({n: len(r.steps.seq) for n, r in eo.record.nodes.items()} if eo.record is not None else None) for i, eo in enumerate(ro.episodes)})


def add_reconfig(r: random.Random, spec: dict, eps: list, p: float = 0.25) -> None:
    """With probability p, later episodes are preceded by a change of one expected delay (set_delay(delay=...)) on a node or connection.
    The configuration in force for an episode is stored in ep["spec_after"] for the oracles."""
    import copy

    from simrex import spec as sp_

    cur = spec
    for j in range(1, len(eps)):
        if r.random() >= p:
            if cur is not spec:
                eps[j]["spec_after"] = cur
            continue
        nxt = copy.deepcopy(cur)
        names = [nd["name"] for nd in nxt["nodes"]]
        ops = []
        if r.random() < 0.5:
            i = r.randrange(len(nxt["nodes"]))
            per = 1.0 / nxt["nodes"][i]["rate"]
            val = sp_._r6(per * r.choice([0.0, 0.2, 0.45, 0.7, 1.0]))
            nxt["nodes"][i]["delay"] = val
            ops.append(["node", names[i], val])
        else:
            ci = r.randrange(len(nxt["conns"]))
            c = nxt["conns"][ci]
            per = min(1.0 / nxt["nodes"][c["dst"]]["rate"], 1.0 / nxt["nodes"][c["src"]]["rate"])
            val = sp_._r6(per * r.choice([0.0, 0.2, 0.45, 0.7, 1.0]))
            c["delay"] = val
            ops.append(["conn", names[c["dst"]], sp_.input_name(nxt, c), val])
        if sp_.in_S(nxt) is None:
            eps[j]["reconfig"] = ops
            eps[j]["spec_after"] = nxt
            cur = nxt
        elif cur is not spec:
            eps[j]["spec_after"] = cur


def snapshot_delays(nodes) -> dict:
    """Expected delays of freshly built node objects (before any reconfiguration): {("node", name): d, ("conn", dst, input_name): d}."""
    out = {}
    for n, nd in nodes.items():
        out[("node", n)] = float(nd.delay)
        for iname, c in nd.inputs.items():
            out[("conn", n, iname)] = float(c.delay)
    return out


def materialise(spec: dict, snap: dict) -> dict:
    """Copy of spec in which expected delays left to rex's default (None) are replaced by the values the freshly built nodes had."""
    import copy

    from simrex import spec as sp_

    s = copy.deepcopy(spec)
    names = [nd["name"] for nd in s["nodes"]]
    for nd in s["nodes"]:
        if nd.get("delay") is None and ("node", nd["name"]) in snap:
            nd["delay"] = snap[("node", nd["name"])]
    for c in s["conns"]:
        key = ("conn", names[c["dst"]], sp_.input_name(s, c))
        if c.get("delay") is None and key in snap:
            c["delay"] = snap[key]
    return s
