"""Shared helpers of the per-property checks."""
from __future__ import annotations

import hashlib
import json
import random

from simrex import driver, spec as sp


def h16(obj) -> str:
    return hashlib.sha256(json.dumps(obj, sort_keys=True, default=str).encode()).hexdigest()[:16]


def gen_supported_spec(rng: random.Random, **kw) -> dict:
    for _ in range(200):
        s = sp.gen_spec(rng, **kw)
        if sp.in_S(s) is None:
            return s
    raise RuntimeError("could not generate a spec in S")


def summarise(ro, plan, verdicts=(), extra_sums=None) -> dict:
    """Common statistics of a run for the aggregate / evidence."""
    st = ro.stats or {}
    counts = dict(st.get("counts") or {})
    faults = {k: counts.get(k, 0) for k in ("stall", "starve", "slow_user", "line_preempt", "hot_line_preempt", "fairness_override", "wall_comp_sleep", "carry_over_start", "drain_gave_up", "timeout_args") if counts.get(k)}
    faults["preempt"] = st.get("preempts", 0)
    strategies = {}
    sim_time = 0.0
    n_eps = 0
    for eo in ro.episodes:
        strategies[eo.plan["strategy"]["name"]] = strategies.get(eo.plan["strategy"]["name"], 0) + 1
        n_eps += 1
        if eo.plan.get("rtf", 0) > 0:
            faults["speed"] = faults.get("speed", 0) + 1
        if eo.plan.get("ending") == "none":
            faults["restart"] = faults.get("restart", 0) + 1
        if eo.plan.get("ending") == "stop2":
            faults["cancel_twice"] = faults.get("cancel_twice", 0) + 1
        if eo.record is not None:
            for n, r in eo.record.nodes.items():
                te = r.steps.ts_end
                if len(te):
                    sim_time = max(sim_time, float(te[-1]))
    probes = {k: v for k, v in counts.items() if k.startswith("stop_while_")}
    amb = 0
    judged = 0
    for v in verdicts:
        for k, x in v.probes.items():
            probes[k] = probes.get(k, 0) + x
        amb += v.ambiguous
        judged += v.judged
    sums = dict(episodes=n_eps, decisions=st.get("decisions", 0), choices=st.get("choices", 0), preemptions=st.get("preempts", 0), sim_time_s=sim_time,
                virtual_wall_s=st.get("virtual_wall_s", 0.0), ambiguous_cases=amb, law_instances_judged=judged, warm_s=ro.warm_s, run_s=ro.run_s)
    if extra_sums:
        sums.update(extra_sums)
    dec_digest = h16([ro.decisions])
    nontrivial = st.get("choices", 0) > 0 and (sum(v for k, v in faults.items()) > 0)
    out = dict(sums=sums, dicts=dict(fault_counts=faults, probe_counts=probes, strategies=strategies),
               interleavings=[dec_digest], task_orders=[h16(ro.task_seq)],
               distinct=[[sp.spec_digest(plan["spec"]), dec_digest]] if nontrivial else [],
               event_digest=st.get("digest"))
    return out


def sample_of(plan, ro, verdict="ok") -> dict:
    return dict(spec=plan["spec"], episodes=[{k: v for k, v in e.items() if k != "slow_user"} for e in plan["episodes"]], first_decisions=ro.decisions[:40],
                n_choices=len(ro.decisions), verdict=verdict,
                records={f"ep{i}": ({n: len(r.steps.seq) for n, r in eo.record.nodes.items()} if eo.record is not None else None) for i, eo in enumerate(ro.episodes)})
