"""C05 - graph lifecycle calls always return and episodes are isolated."""
from __future__ import annotations

import random

from simrex import driver, oracles, spec as sp
from . import common

ID = "C05"

MENU = [({"name": "rr"}, 1), ({"name": "uniform"}, 3), ({"name": "pct", "d": 1}, 2), ({"name": "pct", "d": 3}, 2), ({"name": "starve", "w": 150, "frac": 0.4}, 3),
        ({"name": "user", "eager": True}, 4), ({"name": "user", "eager": False}, 3), ({"name": "burst", "q": 12}, 2)]


def make_plan(seed: int, tier: str, opts: dict) -> dict:
    r = random.Random(seed)
    spec = common.gen_supported_spec(r, max_nodes=4 if tier == "quick" else 6)
    wall = r.random() < opts.get("wall_p", 0.0)
    n_eps = r.choice([1, 2, 2, 3])
    eps = []
    for j in range(n_eps):
        ep = driver.gen_episode(r, j, menu=MENU, open_loop=spec["open_loop"], nsteps=r.randint(1, 9), endings=("stop", "stop", "stop2", "none"))
        if r.random() < 0.15:
            ep["nsteps"] = 0  # reset directly followed by stop / stop before anything ran
        elif r.random() < opts.get("long_p", 0.25):
            ep["nsteps"] = r.randint(25, 60)  # long episode: backlogs in the event queues need time to build up (DESIGN 6, D3)
            if ep.get("override"):
                ep["override"] = [r.random() < 0.5 for _ in range(ep["nsteps"])]
            if ep.get("slow_user"):
                ep["slow_user"] = None
        eps.append(ep)
    if r.random() < opts.get("stop_race_p", 0.3):
        # "stop directly after run()/step()" family: short episodes, each ended by stop(), mixing strategies, with pre-emption
        # concentrated on the lines that touch the shared lifecycle fields (this is where D2-like lost wake-ups live)
        eps = []
        for j in range(r.choice([2, 3, 4])):
            ep = driver.gen_episode(r, j, api=r.choice(["run", "run", "gym"]), menu=[({"name": "uniform"}, 2), ({"name": "burst", "q": 12}, 2), ({"name": "pct", "d": 3}, 1)],
                                    open_loop=spec["open_loop"], nsteps=r.randint(1, 4), endings=("stop",), faults=False, override_p=0.0)
            ep["fair_k"] = 256
            eps.append(ep)
        wall = False
        race = True
    else:
        race = False
    if not race and r.random() < opts.get("fc_cycle_p", 0.25):
        # "fast consumer in a cycle" family (DESIGN 6/11.3, D3): a fast node consumes a slow node's output without blocking (most of its
        # selections expect zero messages) while the slow node blocks on the fast one; complete selections can pile up behind one that
        # waits for a message. Long episodes, schedules that starve single workers.
        spec2 = _fc_cycle_spec(r)
        if sp.in_S(spec2) is None:
            spec = spec2
            wall = False
            eps = [driver.gen_episode(r, j, api=r.choice(["gym", "run"]), menu=MENU, open_loop=False, nsteps=r.randint(20, 60), endings=("stop",), override_p=0.1)
                   for j in range(r.choice([1, 2]))]
            for ep in eps:
                ep["slow_user"] = None
    if not race and r.random() < opts.get("lookahead_p", 0.06):
        # look-ahead boundary family (DESIGN 3.1 rule 9): the deterministic chain at the measured limit of the runtime's 10-step look-ahead
        # (x = 9.2 starts on the current tree, x = 10.2 cannot); one tick less look-ahead and these graphs never start
        R_, r_ = r.choice([(24.0, 8.0), (30.0, 10.0)])
        spec = sp.lookahead_chain(R_, r_, 4, 1.0, adv=r.random() < 0.5)
        spec["lookahead_bound"] = 9.25
        assert sp.in_S(spec) is None, sp.in_S(spec)
        wall = False
        eps = [driver.gen_episode(r, j, menu=MENU, open_loop=False, nsteps=r.randint(2, 8), endings=("stop",), override_p=0.0) for j in range(r.choice([1, 2]))]
    eps[-1]["ending"] = r.choice(["stop", "stop2"])
    for j in range(len(eps) - 1):
        # an episode left running ("none") must be followed by reset(): run() without a stop() continues the old episode (API contract)
        if eps[j]["ending"] == "none" and eps[j + 1]["api"] != "gym":
            eps[j]["ending"] = "stop"
    if r.random() < 0.1:
        eps.insert(0, dict(eps_id=0, api="stop_only", nsteps=0, ending="stop", rtf=0, strategy={"name": "rr"}, sseed=1, fair_k=64))
    if r.random() < 0.15:
        # user-callback fault: a node's optional stop() hook reports failure (False) or forgets to return (None); the runtime documents a
        # warning only, so stop() must still return and the next episode must still start
        spec["nodes"][r.randrange(len(spec["nodes"]))]["stop_result"] = r.choice([False, None])
    for ep in eps:
        if r.random() < 0.2:
            ep["timeout"] = r.choice([30.0, 60.0])  # the optional timeout arguments must not change anything on a graph that makes progress
    plan = dict(spec=spec, seed=seed, episodes=eps, clock="wall" if wall else "sim",
                line_rate=r.choice([0.0, 0.0025, 0.01, 0.04]) if tier == "thorough" else r.choice([0.0, 0.0, 0.01]))
    # pre-emption concentrated on the lines that touch the shared lifecycle fields (kernel.hot_lines)
    plan["hot_rate"] = r.choice([0.0, 0.15, 0.4]) if tier == "thorough" else r.choice([0.0, 0.0, 0.15, 0.4])
    if race:
        plan["hot_rate"], plan["line_rate"] = 0.4, 0.0
    # the OS deschedules the user thread for a while in the middle of a lifecycle call (between two node starts, between a state flip and
    # the wait that follows it, ...): mostly with the wall clock, where time that passes is visible to the nodes
    if not race and r.random() < (opts.get("pause_p_wall", 0.7) if wall else opts.get("pause_p_sim", 0.1)):
        plan["pause_rate"] = r.choice([0.001, 0.003, 0.008])
    plan["spin_guard"] = True  # line tracing always on: a task that spins without reaching a synchronisation point is a (deterministic) livelock verdict
    return plan


def signature(ro) -> str:
    eo = ro.episodes[-1] if ro.episodes else None
    if eo is None:
        return ro.status
    prev = eo.calls[-2] if len(eo.calls) >= 2 else "-"
    return f"{ro.status}/{eo.calls[-1] if eo.calls else '-'}/after:{prev}/api:{eo.plan['api']}"


def run_plan(plan: dict, replay=None) -> dict:
    ro = driver.execute(plan, replay=replay)
    res = dict(plan=plan)
    if ro.status in ("harness_error", "replay_diverged", "build_error"):
        res.update(status="harness_error", detail=f"{ro.status}: {ro.harness_error or ro.detail}")
        return res
    viol = []
    verdicts = []
    if ro.status != "ok":
        eo = ro.episodes[-1]
        blocked = [x for x in (eo.stall_snapshot or []) if x[1] not in ("idle", "done")]
        viol.append(dict(clause=f"live-{ro.status}", signature=signature(ro), call=(eo.calls[-1] if eo.calls else None), calls=eo.calls[-4:],
                         detail=ro.detail[:800], waiting=blocked[:8]))
    for eo in ro.episodes:
        if eo.record is not None:
            v = oracles.check_isolation(eo.record, ro.nodes, plan["spec"], eo.plan["eps_id"])
            verdicts.append(v)
            for x in v.violations:
                x["signature"] = x["clause"]
                x["episode"] = eo.plan["eps_id"]
                viol.append(x)
        if plan.get("clock") == "wall" and eo.record is not None and eo.t_end is not None:
            # wall clock: the episode's clock starts at 0 somewhere after the user began the episode, so nothing in its record can carry a
            # time later than the (virtual) wall time the episode has lasted
            import numpy as onp

            elapsed = eo.t_end - eo.t_begin
            for n, r_ in eo.record.nodes.items():
                cols = [("ts_start", r_.steps.ts_start), ("ts_end", r_.steps.ts_end)]
                for u, ir in (r_.inputs or {}).items():
                    if ir.messages is not None:
                        cols += [(f"ts_sent[{u}]", ir.messages.ts_sent), (f"ts_recv[{u}]", ir.messages.ts_recv)]
                for f, col in cols:
                    a = onp.asarray(col, dtype=float).reshape(-1)
                    if len(a) and float(a.max()) > elapsed + 1e-3:
                        viol.append(dict(clause="iso-timestamp-later-than-the-episode-has-lasted", signature="iso-timestamp-later-than-the-episode-has-lasted", episode=eo.plan["eps_id"],
                                         node=n, field=f, value=float(a.max()), episode_lasted=elapsed))
                        break
    res.update(common.summarise(ro, plan, verdicts, extra_sums=dict(lifecycle_calls=sum(e.calls_returned for e in ro.episodes),
                                                                   record_unavailable=sum(1 for e in ro.episodes if e.record_error))))
    res["dicts"]["call_kinds"] = {}
    for eo in ro.episodes:
        for c in eo.calls:
            res["dicts"]["call_kinds"][c] = res["dicts"]["call_kinds"].get(c, 0) + 1
    if viol:
        res.update(status="violation", violations=viol, decisions=ro.decisions, widths=ro.widths)
    else:
        res.update(status="ok", sample=common.sample_of(plan, ro))
    return res


def _fc_cycle_spec(r: random.Random) -> dict:
    base = r.choice([5.0, 8.0, 10.0])
    ratio = r.choice([2, 3])
    def dist(per, comp):
        k = r.random()
        if k < 0.3:
            return ["det", sp._r6(per * r.choice([0.0, 0.1, 0.3]))]
        if k < 0.7:
            return ["mix", [sp._r6(per * 0.1), sp._r6(per * (r.choice([0.8, 1.2, 1.5]) if comp else r.choice([0.6, 1.0])))], [0.7, 0.3]]
        return ["norm", sp._r6(per * 0.3), sp._r6(per * 0.15)]
    nodes = []
    rates = [base, base * ratio]
    extra = r.random() < 0.6
    if extra:
        rates.append(base * r.choice([1, ratio]))
    for i, rt in enumerate(rates):
        d = dist(1.0 / rt, True)
        nodes.append(dict(name=f"n{i}", rate=rt, dist=d, delay=sp._r6(min(sp.dist_max(d), 1.0 / rt) * 0.5) if d[0] != "det" else None, sched=r.choice(["F", "P"]), advance=False, jit=True))
    def conn(dst, src, blocking, skip, jitter):
        per = min(1.0 / rates[dst], 1.0 / rates[src])
        d = dist(per, False)
        return dict(dst=dst, src=src, blocking=blocking, skip=skip, jitter=jitter, window=r.randint(1, 3), dist=d, delay=sp._r6(min(sp.dist_max(d), per) * 0.5) if d[0] != "det" else None)
    conns = [conn(1, 0, False, True, "L"), conn(0, 1, True, False, r.choice(["L", "B"]))]
    if extra:
        conns.append(conn(2, 1, r.random() < 0.5, False, r.choice(["L", "B"])))
        conns.append(conn(1, 2, False, True, r.choice(["L", "B"])))
    spec = dict(nodes=nodes, conns=conns, sup=r.randrange(len(nodes)), tie=False)
    spec["open_loop"] = len(sp.reachable_from_sup(spec)) < len(nodes)
    sp._repair(spec)
    return spec
