"""C13 - recording is faithful and never changes the execution (both runtimes)."""
from __future__ import annotations

import random

import numpy as onp

from simrex import compiled, driver, probes
from . import common
from .c01 import index_events

ID = "C13"
FIELDS = ("params", "rng", "inputs", "state", "output")


def make_plan(seed: int, tier: str, opts: dict) -> dict:
    r = random.Random(seed)
    spec = common.gen_supported_spec(r, max_nodes=opts.get("max_nodes", 4))
    nsteps = r.randint(4, 9)
    M = opts.get("variants", 4)
    eps = []
    settings = []
    for j in range(M + 1):
        ep = driver.gen_episode(r, 0, api="gym", open_loop=spec["open_loop"], nsteps=nsteps if j == 0 else max(2, nsteps + r.randint(-2, 2)), endings=("stop",), override_p=0.0)
        eps.append(ep)
        if j == 0:
            st = {f: True for f in FIELDS}
            st["max_records"] = 20000
        else:
            st = {f: r.random() < 0.5 for f in FIELDS}
            st["max_records"] = r.choice([20000, 20000, 5, 3, 1])
            if r.random() < 0.35:
                # per-node dictionaries (the documented alternative to one global flag); nodes that are not named keep their previous setting,
                # so the expectation below is tracked per node
                names_ = [nd["name"] for nd in spec["nodes"]]
                st = {f: {n_: r.random() < 0.5 for n_ in names_} for f in FIELDS}
                st["max_records"] = {n_: r.choice([20000, 20000, 4, 2]) for n_ in names_}
        ep["record_settings"] = st
        if j > 0 and r.random() < opts.get("mid_record_p", 0.2):
            ep["mid_record"] = r.randrange(1, max(2, ep["nsteps"]))  # the user also fetches the record in the middle of the episode
        settings.append(st)
    wall = r.random() < opts.get("wall_p", 0.15)
    if wall:
        # WALL_CLOCK recording path (timestamps from the virtual clock): short episodes; nodes with a strictly positive computation time
        # move step_state.ts forward inside their step, which the runtime documents as allowed and must record consistently
        from simrex.spec import dist_min

        for nd in spec["nodes"]:
            if dist_min(nd["dist"]) > 1e-3 and nd["dist"][0] in ("det", "mix") and r.random() < 0.7:
                nd["ts_shift"] = round(0.25 * dist_min(nd["dist"]), 6)
        eps = eps[:3]
        for ep in eps:
            ep["nsteps"] = r.randint(3, 6)
            ep["rtf"] = 1
    do_compiled = (not wall) and r.random() < opts.get("compiled_p", 0.4)
    if do_compiled and r.random() < 0.6:
        # ragged multi-episode experiment for the compiled half: one or two more fully recorded episodes of other lengths
        for _ in range(r.choice([1, 2])):
            ep = driver.gen_episode(r, 0, api="gym", open_loop=spec["open_loop"], nsteps=max(2, nsteps + r.choice([-3, -2, 2, 3, 5])), endings=("stop",), override_p=0.0)
            st = {f: True for f in FIELDS}
            st["max_records"] = 20000
            ep["record_settings"] = st
            ep["for_graph"] = True
            eps.append(ep)
    cc = None
    if do_compiled:
        cc = dict(mode=r.choice(compiled.MODES), prune=r.random() < 0.5, api=r.choice(["rollout_carry", "run_jit", "gym_jit"]),
                  record={f: r.random() < 0.6 for f in FIELDS}, starting_step=r.choice([0, 0, "mid"]), episode=r.randrange(3))
        if r.random() < 0.4:
            # per-node dictionaries (Graph.init_record documents Dict[str, bool] as an alternative to one flag): settings that differ between nodes
            cc["record"] = {f: {nd["name"]: r.random() < 0.5 for nd in spec["nodes"]} for f in FIELDS}
    for ep in eps:
        ep["until_active"] = True
    return dict(spec=spec, seed=seed, episodes=eps, clock="wall" if wall else "sim", line_rate=0.0, compile=cc)


def _row_vs_event(rec_steps, k, ev, input_names, settings, shift: float = 0.0, tol: float = 1e-9):
    """Compare recorded row k with the probe's event of tick k. Returns None or (field, recorded, actual)."""
    if int(onp.asarray(rec_steps.seq)[k]) != ev["seq"]:
        return "seq", int(onp.asarray(rec_steps.seq)[k]), ev["seq"]
    ts = probes._fbits(onp.asarray(rec_steps.ts_start)[k])[0]
    if not shift:
        if ts != ev["ts"]:
            return "ts_start", ts, ev["ts"]
    else:
        seen = float(onp.asarray([ev["ts"]], dtype=onp.uint32).view(onp.float32)[0])
        if abs(float(onp.asarray(rec_steps.ts_start)[k]) - (seen + shift)) > 2e-6:
            return "ts_start (after the step moved it)", float(onp.asarray(rec_steps.ts_start)[k]), seen + shift
    b_, e_, d_ = (float(onp.asarray(getattr(rec_steps, f))[k]) for f in ("ts_start", "ts_end", "delay"))
    if abs((e_ - b_) - d_) > tol:  # float64 arithmetic in the threaded record, float32 in the compiled one
        return "delay (ts_end - ts_start)", d_, e_ - b_
    if rec_steps.rng is not None:
        rr = onp.asarray(rec_steps.rng)[k].reshape(-1).tolist()
        if rr != ev["rng"]:
            return "rng", rr, ev["rng"]
    if rec_steps.state is not None:
        h = int(onp.asarray(rec_steps.state.h)[k])
        if h != ev["h0"]:
            return "state(before step)", h, ev["h0"]
    if rec_steps.output is not None and k < len(onp.asarray(rec_steps.output.h)):
        h = int(onp.asarray(rec_steps.output.h)[k])
        if h != ev["h1"]:
            return "output", h, ev["h1"]
        if int(onp.asarray(rec_steps.output.seq)[k]) != ev["seq"]:
            return "output.seq", int(onp.asarray(rec_steps.output.seq)[k]), ev["seq"]
    if rec_steps.inputs is not None:
        for j, name in enumerate(input_names):
            w = rec_steps.inputs[name]
            got_seq = [int(v) if v >= 0 else -1 for v in onp.asarray(w.seq)[k]]
            if got_seq != ev["inputs"][j]["seq"]:
                return f"inputs[{name}].seq", got_seq, ev["inputs"][j]["seq"]
            real = onp.asarray(w.seq)[k] >= 0
            for f, key in (("ts_sent", "sent"), ("ts_recv", "recv")):
                got = probes._fbits(onp.where(real, onp.asarray(getattr(w, f))[k], 0))
                if got != ev["inputs"][j][key]:
                    return f"inputs[{name}].{f}", got, ev["inputs"][j][key]
            if onp.asarray(w.data.h)[k].tolist() != ev["inputs"][j]["dh"]:
                return f"inputs[{name}].data", onp.asarray(w.data.h)[k].tolist(), ev["inputs"][j]["dh"]
    return None


def _msglog_vs_events(rec_node, node, ni, K_, ev_idx, eps_id, wall: bool):
    """The per-connection message log of a node record against what the node's steps actually received (probe trace).
    Every message a recorded step saw must be listed with the same send/receive time, under the step that first received it (seq_in);
    the log is in sending order and lists nothing for steps beyond the last recorded one. Returns (violation or None, messages checked)."""
    checked = 0
    last = int(onp.asarray(rec_node.steps.seq)[-1]) if K_ else -1
    for j, iname in enumerate(sorted(node.inputs.keys())):
        out = node.inputs[iname].output_node.name
        ir = (rec_node.inputs or {}).get(out)
        if ir is None or ir.messages is None:
            return dict(what="no message log for a connected input", input=iname), checked
        m = ir.messages
        so = onp.asarray(m.seq_out).astype(int).reshape(-1)
        si = onp.asarray(m.seq_in).astype(int).reshape(-1)
        sent = probes._fbits(onp.asarray(m.ts_sent, dtype=onp.float32).reshape(-1))
        recv = probes._fbits(onp.asarray(m.ts_recv, dtype=onp.float32).reshape(-1))
        if len(so) > 1 and onp.any(onp.diff(so) <= 0):
            return dict(what="message log is not in sending order (or lists a message twice)", input=iname, seq_out=so.tolist()[:12]), checked
        if len(si) and int(si.max()) > last:
            return dict(what="message log lists a message for a step beyond the last recorded step", input=iname, seq_in=int(si.max()), last_step=last), checked
        row = {int(q): i for i, q in enumerate(so)}
        seen = set()
        for k in range(K_):
            ev = ev_idx.get((ni, eps_id, k))
            if ev is None:
                continue
            w = ev["inputs"][j]
            for p_, q in enumerate(w["seq"]):
                if q < 0:
                    continue
                i = row.get(q)
                if i is None:
                    return dict(what="a message the step received is missing from the message log", input=iname, tick=k, seq_out=q, log_len=len(so)), checked
                checked += 1
                if q not in seen:
                    seen.add(q)
                    if int(si[i]) != k:
                        return dict(what="seq_in of a logged message is not the step that first received it", input=iname, seq_out=q, seq_in=int(si[i]), first_seen_by=k), checked
                for f, got, act in (("ts_sent", sent[i], w["sent"][p_]), ("ts_recv", recv[i], w["recv"][p_])):
                    if got != act:
                        a_, b_ = (float(onp.asarray([v], dtype=onp.uint32).view(onp.float32)[0]) for v in (got, act))
                        if not (wall and abs(a_ - b_) <= 2e-6):
                            return dict(what=f"{f} of a logged message differs from what the step received", input=iname, seq_out=q, tick=k, recorded=a_, actual=b_), checked
    return None, checked


def run_plan(plan: dict, replay=None) -> dict:
    import jax

    spec = plan["spec"]
    names = [nd["name"] for nd in spec["nodes"]]
    sup_name = names[spec["sup"]]
    # record settings are switched between the episodes of the run through the public API
    hooks = {}

    ro = _execute_with_settings(plan, replay)
    res = dict(plan=plan)
    if ro.status in ("harness_error", "replay_diverged", "build_error"):
        res.update(status="harness_error", detail=f"{ro.status}: {ro.harness_error or ro.detail}")
        return res
    if ro.status != "ok":
        res.update(common.summarise(ro, plan))
        res.update(status="precondition_failed", detail=f"episode did not complete ({ro.status}: {ro.detail[-700:]})", decisions=ro.decisions, widths=ro.widths)
        return res
    nodes = ro.nodes
    wall = plan.get("clock") == "wall"
    viol = []
    rows_checked = variants = truncated = unavailable = msgs_checked = 0
    ref = ro.episodes[0]
    ref_ev, _ = index_events(ref.trace)
    for j, eo in enumerate(ro.episodes):
        st = eo.plan["record_settings"]
        ev_idx, dup = index_events(eo.trace)
        # (a) the execution itself is unchanged by the record settings (simulated clock only: wall-clock timestamps depend on the schedule)
        if j > 0 and not wall:
            variants += 1
            for key, ev in ev_idx.items():
                r_ev = ref_ev.get(key)
                if r_ev is None:
                    continue
                if ev != r_ev:
                    fld = next(f for f in ev if ev[f] != r_ev[f])
                    viol.append(dict(clause="c13-record-settings-changed-the-execution", signature="c13-exec", variant=j, settings=st, node=names[key[0]], tick=key[2], field=fld))
                    break
            m = min(len(ref.obs), len(eo.obs))
            if ref.obs[:m] != eo.obs[:m]:
                viol.append(dict(clause="c13-record-settings-changed-supervisor-observations", signature="c13-obs", variant=j, settings=st))
        # (b) faithfulness of what was recorded
        if eo.record is None:
            unavailable += 1
            continue
        for n, r_ in eo.record.nodes.items():
            steps = r_.steps
            K_ = len(onp.asarray(steps.seq))
            n_exec = sum(1 for key in ev_idx if names[key[0]] == n)
            st_all = st
            st = {k_: (v_[n] if isinstance(v_, dict) else v_) for k_, v_ in st_all.items()}  # this node's settings
            for f in ("rng", "inputs", "state", "output"):
                if (getattr(steps, f) is not None) != bool(st[f]):
                    viol.append(dict(clause="c13-record-contains-exactly-the-requested-fields", signature="c13-fields", variant=j, node=n, field=f, settings=st))
            if (r_.params is not None) != bool(st["params"]):
                viol.append(dict(clause="c13-record-contains-exactly-the-requested-fields", signature="c13-fields", variant=j, node=n, field="params", settings=st))
            if st["max_records"] < 20000:
                truncated += 1
                if K_ > st["max_records"]:
                    viol.append(dict(clause="c13-truncation-keeps-at-most-max_records", signature="c13-trunc", variant=j, node=n, rows=K_, max_records=st["max_records"]))
                if K_ < min(st["max_records"], n_exec) and eo.mid_record is None:  # (a record fetched mid-episode is a snapshot of that moment)
                    viol.append(dict(clause="c13-truncation-keeps-the-first-max_records-rows", signature="c13-trunc", variant=j, node=n, rows=K_, executed=n_exec, max_records=st["max_records"]))
            input_names = sorted(nodes[n].inputs.keys())
            mv, mc = _msglog_vs_events(r_, nodes[n], names.index(n), K_, ev_idx, eo.plan["eps_id"], wall)
            msgs_checked += mc
            if mv is not None:
                viol.append(dict(clause="c13-message-log-differs-from-what-the-steps-received", signature="c13-msglog", variant=j, node=n, **mv))
            for k in range(K_):
                ev = ev_idx.get((names.index(n), eo.plan["eps_id"], k))
                if ev is None:
                    continue  # the supervisor's cancelled last tick
                rows_checked += 1
                d = _row_vs_event(steps, k, ev, input_names, st, shift=float(getattr(nodes[n], "ts_shift", 0.0)) if wall else 0.0)
                if d is not None:
                    viol.append(dict(clause="c13-recorded-row-differs-from-what-the-step-used", signature="c13-row:" + d[0].split("[")[0], variant=j, node=n, tick=k, field=d[0], recorded=str(d[1])[:200],
                                     actual=str(d[2])[:200], settings=st))
                    break
                if steps.state is not None and k + 1 < K_:
                    nxt = int(onp.asarray(steps.state.h)[k + 1])
                    if nxt != ev["h1"]:
                        viol.append(dict(clause="c13-state-before-step-k+1-is-state-returned-by-step-k", signature="c13-chain", variant=j, node=n, tick=k, recorded=nxt, actual=ev["h1"]))
                        break
            st = st_all
    # (c) compiled runtime
    cc = plan.get("compile")
    c_rows = 0
    if cc and not viol and ref.record is not None:
        sup = nodes[sup_name]
        graph_eps = [ref] + [eo for eo in ro.episodes if eo.plan.get("for_graph") and eo.record is not None]
        raw = compiled.experiment_graph([eo.record for eo in graph_eps])
        G = compiled.build_graph(nodes, sup, raw, mode=cc["mode"], prune=cc["prune"])
        e_run = cc.get("episode", 0) % len(graph_eps)  # which episode of the (possibly ragged) experiment is executed
        s0 = 0 if cc.get("starting_step", 0) == 0 else max(1, (G.max_steps + 1) // 2)  # episodes may legally be started in the middle
        n = max(1, G.max_steps - s0)
        probes.clear_trace()
        out0, _ = compiled.drive(G, compiled.init_state(G, ref.gs0, e_run, starting_step=s0), cc["api"], n)
        ev0 = probes.take_trace()
        out1, _ = compiled.drive(G, compiled.init_state(G, ref.gs0, e_run, record=cc["record"], starting_step=s0), cc["api"], n)
        ev1 = probes.take_trace()
        if [(e["node"], e["seq"], e["h0"], e["h1"]) for e in ev0] != [(e["node"], e["seq"], e["h0"], e["h1"]) for e in ev1]:
            viol.append(dict(clause="c13-compiled-recording-changed-the-execution", signature="c13-comp-exec", compile=cc))
        a = jax.tree_util.tree_map(onp.asarray, out0.replace(aux={}))
        b = jax.tree_util.tree_map(onp.asarray, out1.replace(aux={}))
        la, lb = jax.tree_util.tree_leaves(a), jax.tree_util.tree_leaves(b)
        if len(la) != len(lb) or any(not onp.array_equal(x, y, equal_nan=True) for x, y in zip(la, lb)):
            viol.append(dict(clause="c13-compiled-final-state-differs-with-recording", signature="c13-comp-state", compile=cc))
        crec = out1.aux.get("record")
        ev_idx, _ = index_events(ev1)
        if crec is not None:
            for (ni, _e, k) in ev_idx:
                rows = len(onp.asarray(crec.nodes[names[ni]].steps.seq))
                if k >= rows:
                    viol.append(dict(clause="c13-compiled-executed-step-has-no-row-in-the-record", signature="c13-comp-norow", node=names[ni], tick=k, rows=rows, episode=e_run, compile=cc))
                    break
        for nme in (names if crec is not None else ()):
            steps = crec.nodes[nme].steps
            seqs = onp.asarray(steps.seq)
            input_names = sorted(nodes[nme].inputs.keys())
            want = {f: (v.get(nme, False) if isinstance(v, dict) else v) for f, v in cc["record"].items()}  # this node's settings
            if nme not in out1.buffer:
                want["output"] = False  # (a node that was pruned away completely has no output to record, see compiled.init_state)
            for f in ("rng", "inputs", "state", "output"):
                if (getattr(steps, f) is not None) != bool(want[f]):
                    viol.append(dict(clause="c13-record-contains-exactly-the-requested-fields", signature="c13-fields", runtime="compiled", node=nme, field=f, compile=cc))
            if (crec.nodes[nme].params is not None) != bool(want["params"]):
                viol.append(dict(clause="c13-record-contains-exactly-the-requested-fields", signature="c13-fields", runtime="compiled", node=nme, field="params", compile=cc))
            for k in range(len(seqs)):
                ev = ev_idx.get((names.index(nme), e_run, k))
                if ev is None:
                    if seqs[k] != -1 and not (nme == sup_name):
                        viol.append(dict(clause="c13-compiled-row-never-executed-is-not--1", signature="c13-comp-unexec", node=nme, tick=k, seq=int(seqs[k]), compile=cc))
                    continue
                c_rows += 1
                d = _row_vs_event(steps, k, ev, input_names, cc["record"], tol=2e-6)
                if d is not None:
                    viol.append(dict(clause="c13-compiled-recorded-row-differs-from-what-the-step-used", signature="c13-comp-row:" + d[0].split("[")[0], node=nme, tick=k, field=d[0], recorded=str(d[1])[:200], actual=str(d[2])[:200],
                                     compile=cc))
                    break
        jax.clear_caches()
    res.update(common.summarise(ro, plan, extra_sums=dict(rows_checked_threaded=rows_checked, logged_messages_checked=msgs_checked, rows_checked_compiled=c_rows, setting_variants=variants, truncated_records=truncated, record_unavailable=unavailable, wall_clock_runs=1 if wall else 0,
                                                       ts_shifting_nodes=sum(1 for nd in spec["nodes"] if nd.get("ts_shift")))))
    res["dicts"]["fault_counts"]["truncate_record"] = truncated
    if viol:
        res.update(status="violation", violations=viol, decisions=ro.decisions, widths=ro.widths)
    else:
        res.update(status="ok", sample=dict(common.sample_of(plan, ro), settings=[e["record_settings"] for e in plan["episodes"]], compile=cc))
    return res


def _execute_with_settings(plan, replay):
    """driver.execute, but the record settings are switched before every episode (public AsyncGraph.set_record_settings)."""
    orig = driver._episode

    def patched(g, gs0, sup, ep, eo, clock, const, plan_):
        st = ep.get("record_settings")
        if st:
            g.set_record_settings(**st)
        return orig(g, gs0, sup, ep, eo, clock, const, plan_)

    driver._episode = patched
    try:
        return driver.execute(plan, replay=replay)
    finally:
        driver._episode = orig
