"""C16 - node phases and node infos stay consistent with the configured delays.

History of connect / set_delay calls mirrored in a trivial configuration model (the spec dict itself), then
 (1) pure side-oracle: phases = longest expected-delay path (independent DP), infos = model, un-skipped cycle -> algebraic-loop error;
 (2) simulation oracle: an AsyncGraph built from the nodes after the history is simulated; every observed computation / communication
     delay lies in the support of the distribution the model says is current and first starts equal the model's phases;
 (3) nodes rebuilt with from_info + connect_from_info have equal infos/phases/connections and simulate to an identical record.
"""
from __future__ import annotations

import copy
import random

import numpy as onp

from simrex import driver, oracles, spec as sp
from . import common

ID = "C16"


def _finite_dist(r, per, comp: bool):
    k = r.random()
    if k < 0.45:
        return ["det", sp._r6(per * r.choice([0.0, 0.1, 0.25, 0.5]))]
    hi = r.choice([0.6, 0.9, 1.2]) if comp else r.choice([0.5, 0.8, 1.2])
    return ["mix", [sp._r6(per * 0.15), sp._r6(per * hi)], [0.6, 0.4]]


def make_plan(seed: int, tier: str, opts: dict) -> dict:
    r = random.Random(seed)
    for _ in range(500):
        spec = common.gen_supported_spec(r, max_nodes=opts.get("max_nodes", 4))
        # finite-support distributions only: exact membership oracle for observed delays
        for nd in spec["nodes"]:
            per = 1.0 / nd["rate"]
            nd["dist"] = _finite_dist(r, per, True)
            nd["delay"] = sp._r6(min(sp.dist_max(nd["dist"]), per) * r.choice([1.0, 0.5])) if (nd["dist"][0] == "mix" or r.random() < 0.5) else None
        for c in spec["conns"]:
            per = min(1.0 / spec["nodes"][c["dst"]]["rate"], 1.0 / spec["nodes"][c["src"]]["rate"])
            c["dist"] = _finite_dist(r, per, False)
            c["delay"] = sp._r6(min(sp.dist_max(c["dist"]), per) * r.choice([1.0, 0.5])) if (c["dist"][0] == "mix" or r.random() < 0.5) else None
        for k_, c in enumerate(spec["conns"]):
            if r.random() < 0.25:
                c["name"] = f"in{k_}"  # shadow input name
        if r.random() < opts.get("trainable_p", 0.2):
            # one trainable-delay connection with an explicitly configured expected delay that is not the distribution's current delay
            cands = [c for c in spec["conns"] if not c["blocking"] and c["jitter"] == "L"]
            if cands:
                c = r.choice(cands)
                per = min(1.0 / spec["nodes"][c["dst"]]["rate"], 1.0 / spec["nodes"][c["src"]]["rate"])
                dmin = sp._r6(per * r.choice([0.0, 0.1]))
                dmax = sp._r6(dmin + per * r.choice([0.5, 0.8]))
                c["dist"] = ["train", dmin, dmax, sp._r6(dmin + r.random() * (dmax - dmin))]
                c["delay"] = sp._r6(r.choice([dmin, 0.5 * (dmin + dmax), dmax, per]))
        sp._repair(spec)
        # history of configuration calls
        model = copy.deepcopy(spec)
        _materialise_defaults(model)
        hist = []
        big = r.random() < opts.get("big_delay_p", 0.2)
        for _ in range(r.randint(2, 7)):
            if r.random() < 0.6:
                # the user looks at phases / infos in between (a read must never make a later change invisible)
                hist.append(["observe", r.choice([-1] + list(range(len(spec["nodes"])))), None, None])
            if r.random() < 0.5:
                i = r.randrange(len(spec["nodes"]))
                per = 1.0 / spec["nodes"][i]["rate"]
                nd_dist = _finite_dist(r, per, True) if r.random() < 0.75 else None
                cur = nd_dist or model["nodes"][i]["dist"]
                nd_delay = sp._r6(min(sp.dist_max(cur), per) * r.choice([1.0, 0.5, 0.25])) if r.random() < 0.6 else None
                if big and r.random() < 0.5:
                    nd_delay = sp._r6(per * r.choice([1.3, 2.5]))  # expected delay longer than the period
                hist.append(["node_set_delay", i, nd_dist, nd_delay])
                if nd_dist is not None:
                    model["nodes"][i]["dist"] = nd_dist
                if nd_delay is not None:
                    model["nodes"][i]["delay"] = nd_delay
            elif r.random() < opts.get("reconnect_p", 0.25):
                # the user calls connect() again for an already connected pair (same flags): the connection then has exactly the delay
                # arguments of *this* call - arguments left out fall back to connect()'s defaults (no delay), not to what an earlier call set
                ci = r.randrange(len(spec["conns"]))
                c = spec["conns"][ci]
                per = min(1.0 / spec["nodes"][c["dst"]]["rate"], 1.0 / spec["nodes"][c["src"]]["rate"])
                c_dist = _finite_dist(r, per, False) if r.random() < 0.5 else None
                cur = c_dist or ["det", 0.0]
                c_delay = sp._r6(min(sp.dist_max(cur), per) * r.choice([1.0, 0.5])) if (cur[0] == "mix" or r.random() < 0.4) else None
                hist.append(["reconnect", ci, c_dist, c_delay])
                model["conns"][ci]["dist"] = cur
                model["conns"][ci]["delay"] = c_delay if c_delay is not None else float(onp.float32(cur[1]))
            else:
                ci = r.randrange(len(spec["conns"]))
                c = spec["conns"][ci]
                per = min(1.0 / spec["nodes"][c["dst"]]["rate"], 1.0 / spec["nodes"][c["src"]]["rate"])
                c_dist = _finite_dist(r, per, False) if r.random() < 0.75 else None
                cur = c_dist or model["conns"][ci]["dist"]
                c_delay = sp._r6(min(sp.dist_max(cur), per) * r.choice([1.0, 0.5, 0.25])) if r.random() < 0.6 else None
                hist.append(["conn_set_delay", ci, c_dist, c_delay])
                if c_dist is not None:
                    model["conns"][ci]["dist"] = c_dist
                if c_delay is not None:
                    model["conns"][ci]["delay"] = c_delay
        before = copy.deepcopy(model["nodes"])
        sp._repair(model)
        for i, nd in enumerate(model["nodes"]):
            spec["nodes"][i]["advance"] = nd["advance"]
            if (nd["dist"], nd["delay"]) != (before[i]["dist"], before[i]["delay"]):
                # the repair of rule 7 (a zero-latency cycle created by the history gets a positive computation delay) is itself a
                # configuration call of the history, so that model and nodes keep describing the same configuration
                nd["delay"] = nd["delay"] if nd["delay"] is not None else float(onp.float32(nd["dist"][1]))
                hist.append(["node_set_delay", i, nd["dist"], nd["delay"]])
        if sp.in_S(spec) is None and (sp.in_S(model) is None or (big and "expected comp delay" in (sp.in_S(model) or ""))):
            break
    loop = None
    if r.random() < 0.3:
        # an extra, un-skipped connection that closes a cycle: must be reported as an algebraic loop
        import networkx as nx

        G = nx.DiGraph()
        G.add_edges_from((c["src"], c["dst"]) for c in spec["conns"] if not c["skip"])
        for a in G.nodes:
            for b in nx.descendants(G, a):
                if not G.has_edge(b, a) and not any(c["dst"] == a and c["src"] == b for c in spec["conns"]):
                    loop = dict(dst=a, src=b)
                    break
            if loop:
                break
    ep = driver.gen_episode(r, 0, open_loop=spec["open_loop"], nsteps=r.randint(5, 10), endings=("stop",), override_p=0.0)
    ep["until_active"] = True
    ep2 = dict(ep, strategy=driver.draw_strategy(r), sseed=r.randrange(2**31))
    return dict(spec=spec, model=model, history=hist, loop=loop, seed=seed, simulate=sp.in_S(model) is None, episodes=[ep], episodes_rt=[ep2], clock="sim", line_rate=0.0)


def _materialise_defaults(model):
    """Expected delay defaults (None -> 99th percentile): only deterministic distributions are left with None by the generator."""
    for x in model["nodes"] + model["conns"]:
        if x["delay"] is None:
            assert x["dist"][0] == "det"
            x["delay"] = float(onp.float32(x["dist"][1]))


def model_phases(model):
    """Longest expected-delay path into each node over non-skipped connections (independent DP)."""
    n = len(model["nodes"])
    memo = {}

    def ph(i, stack=()):
        if i in memo:
            return memo[i]
        if i in stack:
            raise RecursionError("cycle")
        best = 0.0
        for c in model["conns"]:
            if c["dst"] == i and not c["skip"]:
                best = max(best, (ph(c["src"], stack + (i,)) + model["nodes"][c["src"]]["delay"]) + c["delay"])
        memo[i] = best
        return best

    return [ph(i) for i in range(n)]


def dist_sig(dd):
    import distrax
    from rex.base import TrainableDist

    if isinstance(dd, TrainableDist):
        return ["train", round(float(dd.min), 6), round(float(dd.max), 6)]
    d = dd.dist
    if isinstance(d, distrax.Deterministic):
        return ["det", round(float(d.loc), 6)]
    if isinstance(d, distrax.MixtureSameFamily):
        return ["mix", [round(float(x), 6) for x in onp.asarray(d.components_distribution.loc)], [round(float(x), 4) for x in onp.asarray(d.mixture_distribution.probs)]]
    if isinstance(d, distrax.Normal) and float(d.scale) == 0.0:
        return ["det", round(float(d.loc), 6)]  # connect()'s default when no distribution is given
    if isinstance(d, distrax.Normal):
        return ["norm", round(float(d.loc), 6), round(float(d.scale), 6)]
    return [type(d).__name__]


def apply_history(nodes, spec, hist):
    names = [nd["name"] for nd in spec["nodes"]]
    for op in hist:
        if op[0] == "observe":
            for j, nme in enumerate(names):
                if op[1] in (-1, j):
                    _ = nodes[nme].phase
                    _ = nodes[nme].info
            continue
        if op[0] == "node_set_delay":
            nodes[names[op[1]]].set_delay(delay_dist=sp.make_dist(op[2]) if op[2] is not None else None, delay=op[3])
        elif op[0] == "conn_set_delay":
            c = spec["conns"][op[1]]
            conn = nodes[names[c["dst"]]].inputs[sp.input_name(spec, c)]
            conn.set_delay(delay_dist=sp.make_dist(op[2]) if op[2] is not None else None, delay=op[3])
        elif op[0] == "reconnect":
            import rex.constants as const

            c = spec["conns"][op[1]]
            kw = {}
            if op[2] is not None:
                kw["delay_dist"] = sp.make_dist(op[2])
            if op[3] is not None:
                kw["delay"] = op[3]
            nodes[names[c["dst"]]].connect(nodes[names[c["src"]]], blocking=c["blocking"], skip=c["skip"], window=c["window"],
                                           jitter=const.Jitter.LATEST if c["jitter"] == "L" else const.Jitter.BUFFER, name=c.get("name"), **kw)


def check_config(nodes, model, names):
    """Pure side-oracle: phases, infos and current distributions against the model."""
    viol = []
    phases = model_phases(model)
    for i, nd in enumerate(model["nodes"]):
        node = nodes[names[i]]
        if abs(float(node.phase) - phases[i]) > 1e-9:
            viol.append(dict(clause="c16-phase-is-longest-expected-delay-path", signature="c16-phase", node=node.name, phase=float(node.phase), expected=phases[i]))
        info = node.info
        if abs(float(info.phase) - phases[i]) > 1e-9 or abs(float(info.delay) - nd["delay"]) > 1e-9 or info.rate != nd["rate"] or bool(info.advance) != nd["advance"]:
            viol.append(dict(clause="c16-node-info-matches-configuration", signature="c16-info", node=node.name, info=dict(phase=float(info.phase), delay=float(info.delay)), expected=dict(phase=phases[i], delay=nd["delay"])))
        if abs(float(node.delay) - nd["delay"]) > 1e-9:
            viol.append(dict(clause="c16-set-delay-takes-effect", signature="c16-delay", node=node.name, delay=float(node.delay), expected=nd["delay"]))
        if dist_sig(node.delay_dist)[:2] != _sig_model(nd["dist"])[:2] or dist_sig(info.delay_dist)[:2] != _sig_model(nd["dist"])[:2]:
            viol.append(dict(clause="c16-set-delay-distribution-takes-effect", signature="c16-dist", node=node.name, current=dist_sig(node.delay_dist), expected=nd["dist"]))
    for c in model["conns"]:
        cands = [x for x in nodes[names[c["dst"]]].inputs.values() if x.output_node.name == names[c["src"]]]
        if len(cands) != 1:
            viol.append(dict(clause="c16-connection-missing-or-duplicated", signature="c16-conn", conn=f"{names[c['src']]}->{names[c['dst']]}", found=len(cands)))
            continue
        conn = cands[0]
        if conn.input_name != sp.input_name(model, c) or nodes[names[c["dst"]]].inputs.get(conn.input_name) is not conn:
            viol.append(dict(clause="c16-input-name-matches-configuration", signature="c16-input-name", conn=f"{names[c['src']]}->{names[c['dst']]}", input_name=conn.input_name,
                             expected=sp.input_name(model, c)))
        exp_phase = (phases[c["src"]] + model["nodes"][c["src"]]["delay"]) + c["delay"]
        ii = nodes[names[c["dst"]]].info.inputs[names[c["src"]]]
        if abs(float(conn.delay) - c["delay"]) > 1e-9 or abs(float(ii.delay) - c["delay"]) > 1e-9:
            viol.append(dict(clause="c16-set-delay-takes-effect", signature="c16-delay", conn=f"{names[c['src']]}->{names[c['dst']]}", delay=float(conn.delay), expected=c["delay"]))
        if abs(float(conn.phase) - exp_phase) > 1e-9 or abs(float(ii.phase) - exp_phase) > 1e-9:
            viol.append(dict(clause="c16-connection-phase", signature="c16-phase", conn=f"{names[c['src']]}->{names[c['dst']]}", phase=float(conn.phase), expected=exp_phase))
        if dist_sig(conn.delay_dist)[:2] != _sig_model(c["dist"])[:2] or dist_sig(ii.delay_dist)[:2] != _sig_model(c["dist"])[:2]:
            viol.append(dict(clause="c16-set-delay-distribution-takes-effect", signature="c16-dist", conn=f"{names[c['src']]}->{names[c['dst']]}", current=dist_sig(conn.delay_dist), expected=c["dist"]))
        if (ii.window, bool(ii.blocking), bool(ii.skip), ii.output, ii.rate, ii.name) != (c["window"], c["blocking"], c["skip"], names[c["src"]], model["nodes"][c["src"]]["rate"], sp.input_name(model, c)):
            viol.append(dict(clause="c16-input-info-matches-configuration", signature="c16-info", conn=f"{names[c['src']]}->{names[c['dst']]}"))
    return viol, phases


def _sig_model(d):
    if d[0] == "det":
        return ["det", round(float(onp.float32(d[1])), 6)]
    if d[0] == "mix":
        return ["mix", [round(float(onp.float32(x)), 6) for x in d[1]]]
    if d[0] == "train":
        return ["train", round(float(onp.float32(d[1])), 6), round(float(onp.float32(d[2])), 6)]
    return d


def run_plan(plan: dict, replay=None) -> dict:
    from simrex.probes import ProbeNode
    import rex.constants as const

    spec, model, hist = plan["spec"], plan["model"], plan["history"]
    names = [nd["name"] for nd in spec["nodes"]]
    res = dict(plan=plan)
    viol = []
    holder = {}

    def after_build(nodes):
        apply_history(nodes, spec, hist)
        v, phases = check_config(nodes, model, names)
        holder["config_viol"], holder["phases"] = v, phases

    if not plan.get("simulate", True):
        # configuration outside the supported class of the simulator (expected delay > period): only the configuration oracles apply
        nodes0 = sp.build_nodes(spec)
        after_build(nodes0)
        viol += holder.get("config_viol", [])
        try:
            nodes2 = {n: ProbeNode.from_info(nodes0[n].info, idx=nodes0[n].idx) for n in nodes0}
            for n in nodes0:
                nodes2[n].connect_from_info(nodes0[n].info.inputs, nodes2)
            v2, _ = check_config(nodes2, model, names)
            for x in v2:
                x["clause"] = "c16-rebuilt-from-info:" + x["clause"]
                x["signature"] = "c16-roundtrip"
                viol.append(x)
        except Exception as e:
            viol.append(dict(clause="c16-rebuilt-from-info:raised", signature="c16-roundtrip", detail=repr(e)[:300]))
        res.update(sums=dict(config_calls=len(hist), configuration_only_runs=1), dicts=dict(fault_counts={}, probe_counts={}, strategies={}), distinct=[[common.h16(spec), common.h16(hist)]], interleavings=[], task_orders=[])
        if viol:
            res.update(status="violation", violations=viol)
        else:
            res.update(status="ok", sample=dict(spec=spec, history=hist, configuration_only=True))
        return res
    ro = driver.execute(plan, after_build=after_build)
    if ro.status in ("harness_error", "replay_diverged", "build_error"):
        res.update(status="harness_error", detail=f"{ro.status}: {ro.harness_error or ro.detail}")
        return res
    viol += holder.get("config_viol", [])
    if ro.status != "ok":
        res.update(common.summarise(ro, plan))
        res.update(status="precondition_failed", detail=f"episode did not complete ({ro.status}: {ro.detail[:300]})")
        return res
    rec = ro.episodes[0].record
    verdicts = []
    delays_checked = 0
    rt_ok = 0
    if rec is not None:
        # (2) simulation oracle: observed delays against the *model's* distributions, first starts against the model's phases
        v = oracles.check_c04(rec, ro.nodes, model)
        verdicts.append(v)
        for x in v.violations:
            if x["clause"] in ("4.5-computation-delay-in-support", "4.5-arrival-is-send-plus-comm-delay-fifo"):
                x["clause"] = "c16-observed-delay-not-from-the-configured-distribution(" + x["clause"] + ")"
                x["signature"] = "c16-sim-dist"
                viol.append(x)
        delays_checked = v.judged
        for i, nd in enumerate(model["nodes"]):
            node = ro.nodes[names[i]]
            b = onp.asarray(rec.nodes[names[i]].steps.ts_start, dtype=float)
            if len(b) and not any(c.blocking for c in node.inputs.values()):
                if abs(b[0] - round(holder["phases"][i], 6)) > 5e-9:
                    viol.append(dict(clause="c16-first-start-equals-configured-phase", signature="c16-sim-phase", node=names[i], start=float(b[0]), phase=holder["phases"][i]))
        # (3) info round trip
        try:
            nodes2 = {n: ProbeNode.from_info(ro.nodes[n].info, idx=ro.nodes[n].idx) for n in ro.nodes}  # (same dict order as the original)
            for n in ro.nodes:
                nodes2[n].connect_from_info(ro.nodes[n].info.inputs, nodes2)
            v2, _ = check_config(nodes2, model, names)
            for x in v2:
                x["clause"] = "c16-rebuilt-from-info:" + x["clause"]
                x["signature"] = "c16-roundtrip"
                viol.append(x)
            for n in names:
                if sorted(nodes2[n].inputs.keys()) != sorted(ro.nodes[n].inputs.keys()) or nodes2[n].scheduling != ro.nodes[n].scheduling:
                    viol.append(dict(clause="c16-rebuilt-from-info:connections-differ", signature="c16-roundtrip", node=n))
            if not viol:
                holder2 = {}

                def swap(nodes):
                    # same spec, but the node objects are the ones rebuilt from the infos
                    nodes.clear()
                    nodes.update(nodes2)

                plan2 = dict(plan, episodes=plan["episodes_rt"])
                ro2 = _execute_with_nodes(plan2, nodes2)
                if ro2.status == "ok" and ro2.episodes[0].record is not None:
                    a = oracles.canon_episode(rec, ro.nodes)
                    b = oracles.canon_episode(ro2.episodes[0].record, nodes2)
                    sup = names[spec["sup"]]
                    diffs = oracles.compare_prefix(a, b, skip_last_output_of=sup)
                    if diffs:
                        viol.append(dict(clause="c16-rebuilt-from-info:simulation-differs", signature="c16-roundtrip-sim", diff=diffs[0]))
                    else:
                        rt_ok = 1
                elif ro2.status != "ok":
                    viol.append(dict(clause="c16-rebuilt-from-info:simulation-failed", signature="c16-roundtrip-sim", detail=ro2.detail[:300]))
        except Exception as e:
            import traceback

            viol.append(dict(clause="c16-rebuilt-from-info:raised", signature="c16-roundtrip", detail="".join(traceback.format_exception(None, e, e.__traceback__))[-600:]))
    # algebraic loop
    loops = 0
    if plan.get("loop"):
        nodes3 = sp.build_nodes(spec)
        a, b = names[plan["loop"]["dst"]], names[plan["loop"]["src"]]
        nodes3[a].connect(nodes3[b], blocking=False, skip=False, window=1)
        loops = 1
        try:
            _ = nodes3[a].phase
            viol.append(dict(clause="c16-unskipped-cycle-is-reported-as-algebraic-loop", signature="c16-loop", edge=f"{b}->{a}"))
        except RecursionError:
            pass
    res.update(common.summarise(ro, plan, verdicts, extra_sums=dict(config_calls=len(hist), observed_delays_checked=delays_checked, info_roundtrip_simulations=rt_ok, algebraic_loops=loops,
                                                                   record_unavailable=0 if rec is not None else 1)))
    res["dicts"]["history_ops"] = {}
    for op in hist:
        k = op[0] + ("+dist" if op[2] is not None else "") + ("+delay" if op[3] is not None else "")
        res["dicts"]["history_ops"][k] = res["dicts"]["history_ops"].get(k, 0) + 1
    if viol:
        res.update(status="violation", violations=viol, decisions=ro.decisions, widths=ro.widths)
    else:
        res.update(status="ok", sample=dict(common.sample_of(plan, ro), history=hist))
    return res


def _execute_with_nodes(plan, nodes2):
    """driver.execute with a given set of node objects (rebuilt from infos) instead of nodes built from the spec."""
    orig = driver.build_nodes
    driver.build_nodes = lambda spec, trace=True, hash_recv=True: nodes2
    try:
        return driver.execute(plan)
    finally:
        driver.build_nodes = orig
