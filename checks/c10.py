"""C10 - a trainable delay set to d behaves exactly like a static delay of d.

Reference = the simulator actually delaying the messages: system S (connection c has Deterministic(d)) is executed by the threaded
runtime under simrex, recorded and compiled.  System T (c has TrainableDist(min, max, "zoh")) is recorded with the delay at `min`,
compiled, and run with the delay set to d.  Both compiled runs must give every step the same windows, states and outputs.
"""
from __future__ import annotations

import copy
import random

import numpy as onp

from simrex import compiled, driver, probes
from . import common
from .c01 import index_events

ID = "C10"
GUARD = 1e-4


def make_plan(seed: int, tier: str, opts: dict) -> dict:
    r = random.Random(seed)
    for _ in range(400):
        spec = common.gen_supported_spec(r, max_nodes=opts.get("max_nodes", 4), tie_p=0.0)
        cands = [i for i, c in enumerate(spec["conns"]) if not c["blocking"] and c["jitter"] == "L" and not c["skip"]]
        if cands:
            break
    ci = r.choice(cands)
    c = spec["conns"][ci]
    per_u = 1.0 / spec["nodes"][c["src"]]["rate"]
    per = min(per_u, 1.0 / spec["nodes"][c["dst"]]["rate"])
    dmin = round(per * r.choice([0.0, 0.1, 0.3]), 6)
    dmax = round(dmin + per_u * r.choice([0.6, 1.0, 1.2, 2.2]), 6)
    c["window"] = r.randint(1, 3)
    c["delay"] = round(min(per, dmin + 0.5 * (dmax - dmin)), 6)  # explicit expected delay, equal in S and T, so that phases agree
    ds = []
    for _ in range(12):
        x = r.random()
        if x < 0.15:
            ds.append(round(dmin - per * r.choice([0.1, 0.5]), 6))  # below the range: saturates at min
        elif x < 0.3:
            ds.append(round(dmax + per * r.choice([0.1, 1.0]), 6))  # above the range: saturates at max
        elif x < 0.4:
            ds.append(r.choice([dmin, dmax]))
        else:
            ds.append(round(dmin + r.random() * (dmax - dmin), 6))
    dyadic = r.random() < opts.get("dyadic_p", 0.35)
    if dyadic:
        # Tie-rich family with exact binary arithmetic: rates are powers of two, every delay a multiple of 1/64 s, the trainable range a
        # power-of-two multiple of 1/64 s (so alpha is dyadic too). Arrivals then coincide *bit-exactly* with step starts in both systems
        # and the near-tie guard is not needed (it is replaced by an exactness test on the recorded history).
        q = 1.0 / 64.0
        b = r.choice([4.0, 8.0])
        for nd in spec["nodes"]:
            nd["rate"] = b * r.choice([1, 2])
            per_q = int(round(1.0 / nd["rate"] / q))
            nd["dist"] = ["det", q * r.choice([0, 1, 2, max(1, per_q // 2)])]
            nd["delay"] = nd["dist"][1]
            nd["sched"] = r.choice(["F", "P"])
        for cc in spec["conns"]:
            cc["dist"] = ["det", q * r.choice([0, 0, 1, 2])]
            cc["delay"] = cc["dist"][1]
        m = r.choice([2, 4, 8])
        dmin = q * r.choice([0, 1, 2])
        dmax = dmin + q * m
        c["delay"] = min(dmin + q * (m // 2), 1.0 / max(spec["nodes"][c["src"]]["rate"], spec["nodes"][c["dst"]]["rate"]))
        ds = [dmin + q * r.randint(0, m) for _ in range(8)] + [dmin - q, dmax + 2 * q, dmin, dmax]
        r.shuffle(ds)
        sp_mod = __import__("simrex.spec", fromlist=["x"])
        sp_mod._repair(spec)
        chk = copy.deepcopy(spec)
        chk["conns"][ci]["dist"] = ["train", dmin, dmax, dmin]
        if sp_mod.in_S(chk) is not None:
            return make_plan(seed + 7919, tier, opts)  # the dyadic transform left the supported class: draw again
    ep = driver.gen_episode(r, 0, api="gym", open_loop=spec["open_loop"], nsteps=r.randint(6, opts.get("max_steps", 10)), endings=("stop",), override_p=0.0, faults=False)
    ep["until_active"] = True
    ep2 = dict(ep, strategy=driver.draw_strategy(r), sseed=r.randrange(2**31))
    return dict(spec=spec, seed=seed, dyadic=dyadic, conn=ci, dmin=dmin, dmax=dmax, candidates=ds, episodes=[ep], episodes_S=[ep2], clock="sim", line_rate=0.0, hash_recv=False,
                mode=r.choice(compiled.MODES), prune=r.random() < 0.5, how=r.choice(["alpha", "init_delays"]), api=r.choice(["rollout_carry", "run_jit", "gym_jit"]))


def _spec_with(spec, ci, dist):
    s = copy.deepcopy(spec)
    s["conns"][ci]["dist"] = dist
    return s


def run_plan(plan: dict, replay=None) -> dict:
    import jax

    res = dict(plan=plan)
    spec0 = plan["spec"]
    ci = plan["conn"]
    c = spec0["conns"][ci]
    names = [nd["name"] for nd in spec0["nodes"]]
    u, v = names[c["src"]], names[c["dst"]]
    sup_name = names[spec0["sup"]]
    dmin, dmax = plan["dmin"], plan["dmax"]
    # ---- system T: trainable connection, recorded with the delay at min
    planT = dict(plan, spec=_spec_with(spec0, ci, ["train", dmin, dmax, dmin]))
    roT = driver.execute(planT)
    for ro in (roT,):
        if ro.status in ("harness_error", "replay_diverged", "build_error"):
            res.update(status="harness_error", detail=f"T: {ro.status}: {ro.harness_error or ro.detail}")
            return res
    if roT.status != "ok":
        res.update(common.summarise(roT, planT))
        res.update(status="precondition_failed", detail=f"T episode did not complete ({roT.status}: {roT.detail[:300]})")
        return res
    recT = roT.episodes[0].record
    if recT is None:
        res.update(common.summarise(roT, planT))
        res.update(status="skipped", detail="record unavailable")
        return res
    # ---- choose d: no arrival within GUARD of a step start of the receiver (exact coincidences are float32-fragile in T by construction)
    sent = onp.asarray(recT.nodes[u].steps.ts_end, dtype=float)
    starts = onp.asarray(recT.nodes[v].steps.ts_start, dtype=float)
    d = None
    redraws = 0
    for cand in plan["candidates"]:
        dc = float(onp.float32(min(max(cand, dmin), dmax)))
        gap = onp.min(onp.abs((sent[:, None] + dc) - starts[None, :])) if len(sent) and len(starts) else 1.0
        if gap > GUARD or plan.get("dyadic"):
            d, d_clipped = cand, min(max(cand, dmin), dmax)
            break
        redraws += 1
    if d is None:
        res.update(common.summarise(roT, planT))
        res.update(status="skipped", detail="no candidate delay passed the near-tie guard", sums=dict(near_tie_redraws=redraws))
        return res
    # ---- system S: the same graph with a static delay d (really executed by the threaded runtime)
    planS = dict(plan, spec=_spec_with(spec0, ci, ["det", d_clipped]), episodes=plan["episodes_S"])
    roS = driver.execute(planS)
    if roS.status in ("harness_error", "replay_diverged", "build_error"):
        res.update(status="harness_error", detail=f"S: {roS.status}: {roS.harness_error or roS.detail}")
        return res
    if roS.status != "ok" or roS.episodes[0].record is None:
        res.update(common.summarise(roS, planS))
        res.update(status="precondition_failed" if roS.status != "ok" else "skipped", detail=f"S episode did not complete / no record ({roS.status}: {roS.detail[:300]})")
        return res
    recS = roS.episodes[0].record
    for n in names:
        a, b = onp.asarray(recS.nodes[n].steps.ts_start), onp.asarray(recT.nodes[n].steps.ts_start)
        m = min(len(a), len(b))
        if not onp.array_equal(a[:m], b[:m]):
            res.update(status="harness_error", detail=f"vertex timings of S and T differ for {n} although the connection is non-blocking: {a[:m].tolist()} vs {b[:m].tolist()}")
            return res
    exact_ties = 0
    if plan.get("dyadic"):
        mS = recS.nodes[v].inputs[u].messages
        sS, rS = onp.asarray(mS.ts_sent, dtype=float), onp.asarray(mS.ts_recv, dtype=float)
        if len(sS) and not onp.array_equal(rS, sS + float(onp.float32(d_clipped))):
            res.update(common.summarise(roS, planS))
            res.update(status="skipped", detail="dyadic family: recorded arrivals are not bit-exact sums (rounding involved)")
            return res
        exact_ties = int(onp.sum(onp.isin(rS, onp.asarray(recS.nodes[v].steps.ts_start, dtype=float))))
    viol = []
    # ---- compile both and run
    outs = {}
    for tag, ro, rec in (("S", roS, recS), ("T", roT, recT)):
        nodes = ro.nodes
        sup = nodes[sup_name]
        raw = compiled.experiment_graph([rec])
        G = compiled.build_graph(nodes, sup, raw, mode=plan["mode"], prune=plan["prune"])
        gs0 = ro.episodes[0].gs0
        inputs = None
        if tag == "T":
            if plan["how"] == "alpha":
                i = gs0.inputs[v][u]
                dd = i.delay_dist.replace(alpha=i.delay_dist.get_alpha(d))
                inputs = gs0.inputs.copy({v: gs0.inputs[v].copy({u: i.replace(delay_dist=dd)})})
            else:  # through init_delays (what Graph.init does from params)
                nodes[v].delay_override = {u: d}
                inputs = G.init(jax.random.PRNGKey(0)).inputs
                nodes[v].delay_override = None
        cgs = compiled.init_state(G, gs0, 0, inputs=inputs)
        probes.clear_trace()
        n = G.max_steps
        out, _ = compiled.drive(G, cgs, plan["api"], n)
        outs[tag] = (index_events(probes.take_trace())[0], G, out)
    evS, evT = outs["S"][0], outs["T"][0]
    compared = 0
    in_names = sorted(roS.nodes[v].inputs.keys())
    jc = in_names.index(u)
    W = c["window"]
    for key in sorted(set(evS) & set(evT)):
        a, b = evS[key], evT[key]
        compared += 1
        node = names[key[0]]
        for f in ("ts", "rng", "h0"):
            if a[f] != b[f]:
                viol.append(dict(clause="c10-step-differs-from-static-delay-system", signature="c10-" + f, node=node, tick=key[2], field=f, static=a[f], trainable=b[f], d=d, range=[dmin, dmax], how=plan["how"]))
                break
        if viol:
            break
        for j, (ia, ib) in enumerate(zip(a["inputs"], b["inputs"])):
            if node == v and j == jc and len(ib["seq"]) != W:
                viol.append(dict(clause="c10-step-receives-exactly-window-entries", signature="c10-window-size", node=node, tick=key[2], got=len(ib["seq"]), window=W))
            if ia["seq"] != ib["seq"] or ia["dseq"] != ib["dseq"] or ia["dh"] != ib["dh"]:
                viol.append(dict(clause="c10-window-differs-from-static-delay-system", signature="c10-window", node=node, tick=key[2], input=j, static=ia["seq"], trainable=ib["seq"], d=d, range=[dmin, dmax],
                                 how=plan["how"]))
                break
            if ia["sent"] != ib["sent"]:
                viol.append(dict(clause="c10-window-send-times-differ", signature="c10-sent", node=node, tick=key[2], input=j))
                break
            ra = onp.asarray(ia["recv"], dtype=onp.uint32).view(onp.float32).astype(float)
            rb = onp.asarray(ib["recv"], dtype=onp.uint32).view(onp.float32).astype(float)
            if len(ra) == len(rb) and onp.any(onp.abs(ra - rb) > 2e-6):
                viol.append(dict(clause="c10-window-receive-times-differ", signature="c10-recv", node=node, tick=key[2], input=j, static=ra.tolist(), trainable=rb.tolist()))
                break
        if viol:
            break
        if a["h1"] != b["h1"]:
            viol.append(dict(clause="c10-step-differs-from-static-delay-system", signature="c10-h1", node=node, tick=key[2], field="h1", static=a["h1"], trainable=b["h1"], d=d, range=[dmin, dmax], how=plan["how"]))
            break
    if compared == 0:
        res.update(status="skipped", detail="no common executed step")
        return res
    # Known finding (DESIGN 6, D7): TrainableDist.window() = ceil(rate_out * (max - min)) assumes the producer's outputs are at least one
    # period apart. When they are closer (jittering computation delay, PHASE catch-up) more messages than that can be "arrived under min
    # but not under d", and the extended window cannot reach back far enough.  The condition is evaluated here from the recorded history.
    ext = int(onp.ceil(roT.nodes[u].rate * (dmax - dmin)))
    dcl = float(onp.float32(d_clipped))
    worst = 0
    for bk in starts:
        cnt = int(onp.sum((sent + dmin <= bk) & (sent + dcl > bk)))
        worst = max(worst, cnt)
    ext_short = worst > ext
    if viol and ext_short:
        for x in viol:
            x["signature"] = "c10-extension-insufficient"
            x["needed_extension"] = worst
            x["extension"] = ext
    jax.clear_caches()
    res.update(common.summarise(roS, planS, extra_sums=dict(steps_compared=compared, near_tie_redraws=redraws, saturated=1 if d != d_clipped else 0, extension_insufficient_runs=1 if ext_short else 0, dyadic_runs=1 if plan.get("dyadic") else 0, exact_arrival_equals_step_start=exact_ties)))
    res["dicts"]["delay_set_through"] = {plan["how"]: 1}
    res["dicts"]["compile_modes"] = {f"{plan['mode']}/{'prune' if plan['prune'] else 'noprune'}/{plan['api']}": 1}
    if viol:
        res.update(status="violation", violations=viol)
    else:
        res.update(status="ok", sample=dict(spec=planT["spec"], connection=f"{u}->{v}", d=d, range=[dmin, dmax], how=plan["how"], steps_compared=compared, mode=plan["mode"], prune=plan["prune"]))
    return res
