"""C07 - the compiled schedule runs every graph vertex once, in dependency order.

Caveat (DESIGN 0): the verdict for one compiled instance does not depend on a thread schedule. The simulator's contribution is
(a) the recorded, ragged, overrun-rich histories that are compiled and (b) the ordered event trace of the compiled run.
"""
from __future__ import annotations

import random

import numpy as onp

from simrex import compiled, driver, probes
from . import common

ID = "C07"


def make_plan(seed: int, tier: str, opts: dict) -> dict:
    r = random.Random(seed)
    spec = common.gen_supported_spec(r, max_nodes=opts.get("max_nodes", 4), overrun_bias=0.7)
    n_before_leaves = len(spec["nodes"])
    if r.random() < opts.get("fast_sink_p", 0.25):
        from simrex import spec as _sp2

        s3 = __import__("copy").deepcopy(spec)
        _sp2.add_fast_sinks(s3, r)
        if _sp2.in_S(s3) is None:
            spec = s3
    elif r.random() < opts.get("leaf_p", 0.5):
        from simrex import spec as _sp

        for _ in range(20):
            s2 = __import__("copy").deepcopy(spec)
            _sp.add_leaves(s2, r)
            if _sp.in_S(s2) is None:
                spec = s2
                break
    if r.random() < opts.get("trainable_p", 0.2):
        # one trainable-delay connection (recorded at its minimum delay): the scheduled windows are extended by what the range [min, max] needs
        cands = [c for c in spec["conns"] if not c["blocking"] and c["jitter"] == "L"]
        if cands:
            c = r.choice(cands)
            per_u = 1.0 / spec["nodes"][c["src"]]["rate"]
            per = min(per_u, 1.0 / spec["nodes"][c["dst"]]["rate"])
            dmin = round(per * r.choice([0.0, 0.1, 0.35]), 6)
            dmax = round(dmin + per_u * r.choice([0.6, 1.0, 1.4, 2.0]), 6)
            old_ = (c["dist"], c["delay"])
            c["dist"] = ["train", dmin, dmax, dmin]
            c["delay"] = round(min(per, dmin + 0.5 * (dmax - dmin)), 6)
            from simrex import spec as _sp3

            if _sp3.in_S(spec) is not None:  # (e.g. a minimum delay of 0 can close a zero-latency cycle, rule 7): leave the connection as it was
                c["dist"], c["delay"] = old_
    n_eps = r.choice([1, 2, 3, 3])
    eps = [driver.gen_episode(r, j, open_loop=spec["open_loop"], nsteps=r.randint(3, opts.get("max_steps", 9)), endings=("stop",), override_p=0.0, faults=False) for j in range(n_eps)]
    pairs = [(m, p) for m in compiled.MODES for p in (True, False)]
    r.shuffle(pairs)
    comp = [dict(mode=m, prune=p, s_init=(m == "mcs" and r.random() < 0.4)) for m, p in pairs[:opts.get("pairs", 2)]]
    if len(spec["nodes"]) > n_before_leaves and not any(c["mode"] == "mcs" and not c["prune"] for c in comp):
        comp[0] = dict(mode="mcs", prune=False, s_init=False)  # sink nodes present: always look at MCS without pruning
    source = "recorded" if r.random() >= opts.get("generated_p", 0.3) else "generated"
    if source == "generated":
        # rex.artificial.generate_graphs documents (NotImplementedError) that it does not support these settings
        for nd in spec["nodes"]:
            nd["sched"] = "F"
            nd["advance"] = False
        for c in spec["conns"]:
            c["blocking"] = False
            c["jitter"] = "L"
    for ep in eps:
        ep["until_active"] = True
    return dict(spec=spec, seed=seed, episodes=eps, clock="sim", line_rate=0.0, compile=comp, source=source, dyn_episode=r.randrange(n_eps), gen_eps=r.randint(1, 3),
                gen_tmax=r.choice([0.6, 1.0, 1.5]))


def order_check(evs, pos, names, sup_name, n):
    """Oracle B: the ordered host trace lists exactly the run=True slots of the executed partitions, in an order consistent with the schedule."""
    seen = []
    for ev in evs:
        key = (names[ev["node"]], ev["seq"])
        seen.append(key)
    exp = {k for k, (p, g) in pos.items() if p < n}
    got = set(seen)
    if len(seen) != len(got):
        return ("executed-twice", [k for k in got if seen.count(k) > 1][:4])
    if got != exp:
        return ("executed-set-differs-from-schedule", dict(missing=sorted(exp - got)[:5], extra=sorted(got - exp)[:5]))
    last = (-1, -1)
    for key in seen:
        pg = pos[key]
        if pg < last:
            return ("execution-order-violates-partition/generation-order", dict(key=key, at=pg, after=last))
        last = max(last, pg)
    return None


def run_plan(plan: dict, replay=None) -> dict:
    import jax

    spec = plan["spec"]
    names = [nd["name"] for nd in spec["nodes"]]
    sup_name = names[spec["sup"]]
    res = dict(plan=plan)
    ro = None
    if plan["source"] == "recorded":
        ro = driver.execute(plan, replay=replay)
        if ro.status in ("harness_error", "replay_diverged", "build_error"):
            res.update(status="harness_error", detail=f"{ro.status}: {ro.harness_error or ro.detail}")
            return res
        if ro.status != "ok":
            res.update(common.summarise(ro, plan))
            res.update(status="precondition_failed", detail=f"episode did not complete ({ro.status}: {ro.detail[:300]})", decisions=ro.decisions, widths=ro.widths)
            return res
        if any(eo.record is None for eo in ro.episodes):
            res.update(common.summarise(ro, plan))
            res.update(status="skipped", detail="record unavailable")
            return res
        nodes = ro.nodes
        raw = compiled.experiment_graph([eo.record for eo in ro.episodes])
        gs_inits = [eo.gs0 for eo in ro.episodes]
    else:
        from simrex.spec import build_nodes
        from rex import artificial

        nodes = build_nodes(spec)
        tmax = max(plan["gen_tmax"], max(float(nd.phase) + 3.0 / nd.rate for nd in nodes.values()))  # every node gets a few vertices inside the horizon
        raw = artificial.generate_graphs(nodes, ts_max=tmax, rng=jax.random.PRNGKey(plan["seed"] & 0xFFFF), num_episodes=plan["gen_eps"])
        gs_inits = None
    sup = nodes[sup_name]
    raw_np = compiled.np_tree(raw)
    viol = []
    tot = dict(scheduled=0, masked=0, extra=0, required=0, pruned_vertex=0, ragged_padding=0, instances=0, dynamic_runs=0, events_ordered=0)
    S_other = None
    for cc in plan["compile"]:
        kw = {}
        if cc.get("s_init"):
            if S_other is None:
                first = jax.tree_util.tree_map(lambda x: x[:1], raw)
                try:
                    S_other = compiled.build_graph(nodes, sup, first, mode="mcs", prune=cc["prune"]).S
                except Exception:
                    S_other = False  # the sub-experiment does not compile on its own (see "skipped" below); go on without S_init
            if S_other:
                kw["S_init"] = S_other
                tot["s_init_instances"] = tot.get("s_init_instances", 0) + 1
        try:
            G = compiled.build_graph(nodes, sup, raw, mode=cc["mode"], prune=cc["prune"], **kw)
        except Exception as e:
            import traceback

            # Not a C07 verdict: the property speaks about the schedule of a graph that compiles. Counted and reported as skipped;
            # the campaign turns a majority of skipped runs into an inconclusive (exit 2) result.
            res.update(status="skipped", detail="Graph() raised: " + "".join(traceback.format_exception(None, e, e.__traceback__))[-400:], sums=dict(compile_raised=1))
            return res
        problems, stats, positions = compiled.validate_schedule(G, raw_np, nodes, sup_name, cc["prune"])
        tot["instances"] += 1
        for k in ("scheduled", "masked", "extra", "required", "pruned_vertex", "ragged_padding"):
            tot[k] += stats[k]
        problems.sort(key=lambda p: p[0] == "required-vertex-only-scheduled-beyond-horizon")  # the known finding D12 never hides another problem
        for p in problems[:3]:
            viol.append(dict(clause="c07-" + p[0], signature="c07-" + p[0], compile=cc, source=plan["source"], detail=[str(x)[:200] for x in p[1:]]))
        if any(p[0] != "required-vertex-only-scheduled-beyond-horizon" for p in problems):
            break
        # oracle B (dynamic): one episode, ordered trace
        e = plan["dyn_episode"] % len(positions)
        probes.clear_trace()
        if gs_inits is not None:
            cgs = compiled.init_state(G, gs_inits[e], e)
        else:
            cgs = compiled.graph_init(G, jax.random.PRNGKey(1), starting_eps=e)
        n = G.max_steps
        out, _ = compiled.drive(G, cgs, "run_jit" if plan["seed"] % 2 else "rollout_carry", n)
        evs = probes.take_trace()
        tot["dynamic_runs"] += 1
        tot["events_ordered"] += len(evs)
        # supervisor ticks p < n are executed by run(); partitions 0..n-1
        pos = {k: v for k, v in positions[e].items()}
        bad = order_check(evs, pos, names, sup_name, n)
        if bad is not None:
            viol.append(dict(clause="c07-dynamic-" + bad[0], signature="c07-dyn-" + bad[0], compile=cc, source=plan["source"], episode=e, detail=str(bad[1])[:600]))
            break
    viol.sort(key=lambda x: x["clause"] == "c07-required-vertex-only-scheduled-beyond-horizon")
    jax.clear_caches()
    if ro is not None:
        res.update(common.summarise(ro, plan, extra_sums=tot))
    else:
        res.update(sums=tot, dicts=dict(fault_counts={}, probe_counts={}, strategies={}), distinct=[[common.h16(spec), common.h16([plan["gen_eps"], plan["gen_tmax"], plan["seed"]])]], interleavings=[], task_orders=[])
    res["dicts"]["probe_counts"].update(masked_slot=tot["masked"], pruned_vertex=tot["pruned_vertex"], ragged_padding=tot["ragged_padding"], extra_vertices_scheduled=tot["extra"])
    res["dicts"]["graph_source"] = {plan["source"]: 1}
    res["dicts"]["compile_modes"] = {}
    for cc in plan["compile"]:
        k = f"{cc['mode']}/{'prune' if cc['prune'] else 'noprune'}" + ("/S_init" if cc.get("s_init") else "")
        res["dicts"]["compile_modes"][k] = res["dicts"]["compile_modes"].get(k, 0) + 1
    if viol:
        res.update(status="violation", violations=viol, decisions=ro.decisions if ro else None, widths=ro.widths if ro else None)
    else:
        smp = dict(spec=spec, source=plan["source"], compile=plan["compile"], totals=tot)
        res.update(status="ok", sample=smp)
    return res
