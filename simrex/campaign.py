"""Campaign runner: seeded runs in worker processes, aggregation, replay files, evidence, exit codes."""
from __future__ import annotations

import hashlib
import importlib
import json
import multiprocessing as mp
import os
import random
import sys
import time
import traceback
from concurrent.futures import ProcessPoolExecutor, as_completed
from concurrent.futures.process import BrokenProcessPool
from typing import Dict, List, Optional

VERIF = os.path.dirname(os.path.dirname(os.path.abspath(__file__)))
EVIDENCE_DIR = os.environ.get("SIMREX_EVIDENCE_DIR") or os.path.join(VERIF, "evidence")  # overridden only by the mutant tooling
REPLAY_DIR = os.environ.get("SIMREX_REPLAY_DIR") or os.path.join(VERIF, "replays")
KNOWN = os.path.join(VERIF, "known_findings.json")

REAL_VS_STUB = {
    "real": ["rex.asynchronous (all tasks, _Synchronizer, AsyncGraph)", "rex.node", "rex.base", "rex.graph", "rex.partition_runner", "rex.utils",
             "rex.artificial", "supergraph", "jax/XLA numerics", "distrax"],
    "simulated": ["ThreadPoolExecutor/Future/RLock/time as seen by rex.asynchronous (real OS threads, seeded choice of who runs, virtual clock)",
                  "computation time in WALL_CLOCK mode (virtual sleep wrapped around async_step)"],
    "stub": ["node classes: harness-owned probe nodes (hash-chained pure-JAX step with ordered host trace)"],
    "uncontrolled": ["XLA internal thread pools / async dispatch / Python GC (influence no value and no kernel decision)"],
}


def _child_init(counter=None, ncpu=None):
    sys.path.insert(0, VERIF)
    if counter is not None and os.environ.get("SIMREX_PIN", "1") == "1":
        # pin each worker (and with it all its sim threads) to one core: baton hand-offs stay core-local
        try:
            with counter.get_lock():
                i = counter.value
                counter.value += 1
            cpus = sorted(os.sched_getaffinity(0))
            os.sched_setaffinity(0, {cpus[i % len(cpus)]})
        except Exception:
            pass
    from simrex import seams

    seams.configure_env()


def _child_run(mod_name: str, seed: int, tier: str, opts: dict) -> dict:
    import faulthandler

    faulthandler.dump_traceback_later(opts.get("task_timeout", 420), exit=True)
    t0 = time.time()
    try:
        from simrex import seams

        seams.configure_env()
        seams.install()
        mod = importlib.import_module(mod_name)
        plan = mod.make_plan(seed, tier, opts)
        res = mod.run_plan(plan)
        res.setdefault("seed", seed)
        res["wall_s"] = time.time() - t0
        try:
            import jax

            if opts.get("clear_caches", True):
                jax.clear_caches()
        except Exception:
            pass
        return res
    except BaseException as e:  # noqa
        if type(e).__name__ == "CompileRaised":
            return dict(seed=seed, status="skipped", detail="Graph() raised: " + str(e)[-600:], sums=dict(compile_raised=1), wall_s=time.time() - t0)
        return dict(seed=seed, status="harness_error", detail="".join(traceback.format_exception(None, e, e.__traceback__))[-3000:], wall_s=time.time() - t0)
    finally:
        faulthandler.cancel_dump_traceback_later()


def run_seeds(master_seed: int, n: int) -> List[int]:
    r = random.Random(master_seed)
    return [r.randrange(1, 2**31 - 1) for _ in range(n)]


class Aggregate:
    def __init__(self, pid: str):
        self.pid = pid
        self.results = 0
        self.status: Dict[str, int] = {}
        self.violations: List[dict] = []
        self.harness: List[dict] = []
        self.precond: List[dict] = []
        self.sums: Dict[str, float] = {}
        self.dicts: Dict[str, Dict[str, int]] = {}
        self.distinct = set()
        self.interleavings = set()
        self.task_orders = set()
        self.samples: List[dict] = []
        self.seeds: List[int] = []

    def add(self, r: dict):
        self.results += 1
        self.seeds.append(r.get("seed"))
        st = r.get("status", "harness_error")
        self.status[st] = self.status.get(st, 0) + 1
        if st == "violation":
            self.violations.append(r)
        elif st == "harness_error" or st == "replay_diverged":
            self.harness.append(r)
        elif st == "precondition_failed":
            self.precond.append(r)
        for k, v in (r.get("sums") or {}).items():
            self.sums[k] = self.sums.get(k, 0) + v
        for k, d in (r.get("dicts") or {}).items():
            dd = self.dicts.setdefault(k, {})
            for kk, vv in d.items():
                dd[kk] = dd.get(kk, 0) + vv
        for x in r.get("distinct") or []:
            self.distinct.add(tuple(x) if isinstance(x, list) else x)
        for x in r.get("interleavings") or []:
            self.interleavings.add(x)
        for x in r.get("task_orders") or []:
            self.task_orders.add(x)
        if r.get("sample") is not None and len(self.samples) < 3:
            self.samples.append(r["sample"])


def load_known() -> dict:
    if os.path.exists(KNOWN):
        return json.load(open(KNOWN))
    return {"findings": [], "fixed": []}


def match_known(pid: str, viol: dict, known: dict) -> Optional[dict]:
    for f in known.get("findings", []):
        if f.get("property") != pid:
            continue
        m = f.get("match", {})
        if m.get("clause") and m["clause"] != viol.get("clause"):
            continue
        sig = m.get("signature")
        if sig and sig != viol.get("signature"):
            continue
        return f
    return None


def write_replay(pid: str, r: dict, tag: str = "") -> str:
    os.makedirs(REPLAY_DIR, exist_ok=True)
    path = os.path.join(REPLAY_DIR, f"{pid}-{r.get('seed')}{tag}.json")
    body = dict(format=1, property=pid, seed=r.get("seed"), plan=r.get("plan"), decisions=r.get("decisions"), widths=r.get("widths"),
                expect=dict(clause=(r.get("violations") or [{}])[0].get("clause"), signature=(r.get("violations") or [{}])[0].get("signature"),
                            event_digest=r.get("event_digest"), detail=(r.get("violations") or [{}])[0]),
                repo_head=_repo_head(), minimised=bool(r.get("minimised")), minimisation=r.get("minimisation"))
    with open(path, "w") as f:
        json.dump(body, f, indent=1, default=str)
    return path


def _repo_head() -> str:
    try:
        import subprocess

        return subprocess.run(["git", "-C", os.environ.get("REX_VERIF_REPO", "/repo"), "rev-parse", "HEAD"], capture_output=True, text=True, timeout=10).stdout.strip()
    except Exception:
        return ""


def campaign(pid: str, mod_name: str, tier: str, master_seed: int, n_runs: int, workers: int, budget_s: Optional[float], opts: dict,
             level_rule: str, assumptions: List[str], extra_cov: Optional[dict] = None, minimise=None) -> int:
    """Runs the campaign, writes evidence, prints VIOLATION / KNOWN-FINDING lines. Returns the process exit code."""
    t0 = time.time()
    agg = Aggregate(pid)
    print(f"[{pid}] tier={tier} VERIF_SEED={master_seed} runs={'time-boxed %ss' % budget_s if budget_s else n_runs} workers={workers}", flush=True)
    ctx = mp.get_context("spawn")
    known_now = load_known()
    pool_broken = None
    submitted = 0
    deaths = []
    tolerated = int(opts.get("tolerate_worker_deaths", 0 if pid == "C05" else 1))
    seed_iter = iter(_seed_stream(master_seed))
    carry: List[int] = []  # seeds that were pending when a worker died (re-submitted in the next pool)
    target = n_runs
    stop = False
    while not stop:
        pending = {}
        started = {}
        try:
            with ProcessPoolExecutor(max_workers=workers, mp_context=ctx, initializer=_child_init, initargs=(ctx.Value("i", 0), None), max_tasks_per_child=opts.get("tasks_per_child", 40)) as ex:

                def submit_one(seed=None):
                    nonlocal submitted
                    s = next(seed_iter) if seed is None else seed
                    pending[ex.submit(_child_run, mod_name, s, tier, opts)] = s
                    started[s] = time.time()
                    if seed is None:
                        submitted += 1

                for s in carry:
                    submit_one(s)
                carry = []
                for _ in range(max(0, (min(target, workers * 2) if budget_s is None else workers * 2) - len(pending))):
                    if budget_s is None and submitted >= target:
                        break
                    submit_one()
                while pending:
                    done = next(as_completed(list(pending.keys())))
                    s = pending.pop(done)
                    try:
                        r = done.result()
                    except BrokenProcessPool:
                        pending[done] = s
                        raise
                    except Exception as e:
                        r = dict(seed=s, status="harness_error", detail=repr(e))
                    agg.add(r)
                    if r.get("status") not in ("ok", "skipped"):
                        print(f"[{pid}] seed={r.get('seed')} status={r.get('status')} {str(r.get('detail') or (r.get('violations') or [''])[0])[:400]}", flush=True)
                    more = (submitted < target) if budget_s is None else (time.time() - t0 < budget_s)
                    n_new = sum(1 for v in agg.violations if match_known(pid, (v.get("violations") or [{}])[0], known_now) is None)
                    if more and n_new < opts.get("max_violations", 3):
                        submit_one()
                stop = True
        except BrokenProcessPool as e:
            # a worker was killed by the wall-clock guard (or crashed). The run that had been going longest is taken to be the culprit and is
            # not repeated; everything else that was pending is re-submitted to a new pool.
            lost = sorted(pending.values(), key=lambda s_: started.get(s_, 0.0))
            culprit = lost[0] if lost else None
            deaths.append(culprit)
            print(f"[{pid}] worker died (wall-clock guard of {opts.get('task_timeout', 420)} s or crash); longest-running seed {culprit}; {len(lost) - 1} pending runs re-submitted", flush=True)
            if len(deaths) > tolerated:
                pool_broken = f"{len(deaths)} worker deaths (seeds {deaths}): {e}"
                stop = True
            else:
                carry = lost[1:]
    if deaths and pool_broken is None:
        print(f"[{pid}] NOTE: {len(deaths)} run(s) were killed by the wall-clock guard and are not part of the verdict (seeds {deaths})", flush=True)
    wall = time.time() - t0
    # ---- verdicts
    known = load_known()
    exit_code = 0
    new_viol = []
    known_hits = {}
    for r in agg.violations:
        v0 = (r.get("violations") or [{}])[0]
        kf = match_known(pid, v0, known)
        if kf is not None:
            known_hits.setdefault(kf.get("id", kf.get("what")), (kf, r))
        else:
            new_viol.append(r)
    # one line per finding listed for this property (whether or not this campaign's sample ran into it), with how often it was seen
    hit_counts = {}
    for r in agg.violations:
        kf = match_known(pid, (r.get("violations") or [{}])[0], known)
        if kf is not None:
            hit_counts[kf.get("id", kf.get("what"))] = hit_counts.get(kf.get("id", kf.get("what")), 0) + 1
    for kf in known.get("findings", []):
        if kf.get("property") == pid:
            n_hit = hit_counts.get(kf.get("id", kf.get("what")), 0)
            print(f"KNOWN-FINDING: property={pid} {kf.get('what')} [{kf.get('id', '')}: seen in {n_hit} of {agg.results} runs of this campaign]", flush=True)
    for r in new_viol[:3]:
        path = write_replay(pid, r)
        if minimise is not None:
            try:
                mr = minimise(r, opts)
                if mr is not None:
                    mr["minimised"] = True
                    write_replay(pid, r, tag=".orig")
                    path = write_replay(pid, mr, tag=".min")
            except Exception as e:
                print(f"[{pid}] minimisation failed: {e!r}", flush=True)
        v0 = (r.get("violations") or [{}])[0]
        print(f"VIOLATION property={pid} replay={path} clause={v0.get('clause')} seed={r.get('seed')}", flush=True)
        exit_code = 1
    # Runs whose episode did not complete cannot be judged by this property's oracle; whether that is a defect is C05's verdict. A few of
    # them are reported and tolerated (the supported class S is an empirical boundary); many make the result inconclusive.
    precond_limit = max(2, int(0.05 * agg.results))
    for r in agg.precond[:3]:
        path = write_replay(pid, r, tag=".precond")
        print(f"[{pid}] PRECONDITION-FAILED seed={r.get('seed')}: {str(r.get('detail'))[:600]} (replay {path}); see check C05", flush=True)
    if exit_code == 0 and (agg.harness or pool_broken or len(agg.precond) > precond_limit):
        for r in agg.harness[:3]:
            print(f"[{pid}] HARNESS-ERROR seed={r.get('seed')}: {str(r.get('detail'))[-1200:]}", flush=True)
        if pool_broken:
            print(f"[{pid}] HARNESS-ERROR {pool_broken}", flush=True)
        if len(agg.precond) > precond_limit:
            print(f"[{pid}] INCONCLUSIVE: {len(agg.precond)} of {agg.results} runs did not complete", flush=True)
        exit_code = 2
    if agg.results == 0:
        exit_code = 2
    n_ok = agg.status.get("ok", 0)
    if exit_code == 0 and (n_ok == 0 or agg.status.get("skipped", 0) > 0.6 * agg.results):
        print(f"[{pid}] INCONCLUSIVE: only {n_ok} of {agg.results} runs could be judged (status {agg.status})", flush=True)
        exit_code = 2
    # ---- evidence
    cov = dict(
        evaluations=int(agg.results),
        distinct_nontrivial=int(len(agg.distinct)),
        rule=level_rule,
        samples=agg.samples[:3],
        runs_per_hour=round(agg.results / max(wall, 1e-9) * 3600, 1),
        seeds=dict(master=master_seed, first=agg.seeds[:5], count=len(agg.seeds)),
        status_counts=agg.status,
        distinct_interleavings=len(agg.interleavings),
        distinct_task_orders=len(agg.task_orders),
        interleaving_measure="distinct_interleavings = number of distinct digests of a run's full decision trace (index of the thread chosen at every decision "
                             "point with >= 2 runnable threads); distinct_task_orders = number of distinct digests of the per-executor task sequences "
                             "(which rex task ran on which single-worker executor, in which order)",
        real_vs_stub=REAL_VS_STUB,
        workers=workers,
        runs_killed_by_wall_clock_guard=len(deaths),
    )
    for k, v in agg.sums.items():
        cov[k] = round(v, 6) if isinstance(v, float) else v
    for k, d in agg.dicts.items():
        cov[k] = d
    if extra_cov:
        cov.update(extra_cov)
    cov["known_findings_hit"] = sorted(known_hits.keys())
    ev = dict(property_id=pid, tier=tier, seed=int(master_seed), level="exploration", coverage=cov, assumptions=assumptions, wall_s=round(wall, 2),
              violations=len(new_viol))
    os.makedirs(EVIDENCE_DIR, exist_ok=True)
    if exit_code != 2 or agg.results > 0:
        with open(os.path.join(EVIDENCE_DIR, f"{pid}.json"), "w") as f:
            json.dump(ev, f, indent=1, default=str)
    print(f"[{pid}] done: runs={agg.results} status={agg.status} distinct_nontrivial={len(agg.distinct)} wall={wall:.0f}s exit={exit_code}", flush=True)
    return exit_code


def _seed_stream(master_seed: int):
    r = random.Random(master_seed)
    while True:
        yield r.randrange(1, 2**31 - 1)


def digest(obj) -> str:
    return hashlib.sha256(json.dumps(obj, sort_keys=True, default=str).encode()).hexdigest()[:16]
