"""Compiled-runtime side: record -> Graph, driving the compiled graph through its APIs, and the static validators
(schedule validator for C07, ring-buffer replay for C08) over Graph.timings."""
from __future__ import annotations

import itertools
import time as _rt
from typing import Dict, List, Optional

import numpy as onp

from . import probes

MODES = ("mcs", "gen", "top")


def mode_const(mode: str):
    import rex.constants as const

    return {"mcs": const.Supergraph.MCS, "gen": const.Supergraph.GENERATIONAL, "top": const.Supergraph.TOPOLOGICAL}[mode]


def experiment_graph(records: list):
    from rex.base import ExperimentRecord

    return ExperimentRecord(episodes=list(records)).to_graph()


def build_graph(nodes, sup, raw, mode="mcs", prune=True, **kw):
    from rex.graph import Graph

    try:
        return Graph(nodes, sup, raw, supergraph=mode_const(mode), prune=prune, progress_bar=False, **kw)
    except Exception as e:  # observed on the pinned tree: KeyError in Timings.get_buffer_sizes (D8), AssertionError inside supergraph.grow_supergraph (D10)
        import traceback

        raise CompileRaised(f"mode={mode} prune={prune}: " + "".join(traceback.format_exception(None, e, e.__traceback__))[-700:]) from e


class CompileRaised(Exception):
    """Graph(...) itself raised. Not a verdict of any claimed property (they speak about graphs that compile): the run is counted as
    skipped/compile_raised by the campaign, which turns a majority of skipped runs into an inconclusive (exit 2) result."""


def graph_init(G, *a, **kw):
    """Graph.init, with its own assertion failures (e.g. "Buffer size for node `n` is 0" for a node nobody reads, D8) mapped to CompileRaised."""
    try:
        return G.init(*a, **kw)
    except (AssertionError, KeyError) as e:
        import traceback

        raise CompileRaised("Graph.init raised: " + "".join(traceback.format_exception(None, e, e.__traceback__))[-500:]) from e


_JIT_CACHE: dict = {}
RECORD_UNAVAILABLE = {"n": 0}


def init_state(G, gs_init, eps_index: int, record=None, starting_step: int = 0, inputs=None):
    """Compiled graph state for episode `eps_index` starting from the asynchronous initial rng/params/state/inputs."""
    import jax

    cgs = graph_init(G, jax.random.PRNGKey(0), starting_eps=eps_index, starting_step=starting_step)
    cgs = cgs.replace(rng=gs_init.rng, params=gs_init.params, state=gs_init.state, inputs=inputs if inputs is not None else gs_init.inputs)
    if record:
        # A node that was pruned away completely has no output buffer and Graph.init_record(output=True) raises KeyError for it
        # (observed on the pinned tree; outside the listed properties, DESIGN 6 D8): ask for its output record per node.
        rec = dict(record)
        missing = [n for n in G.nodes if n not in cgs.buffer]
        if missing and rec.get("output"):
            want = rec["output"]
            rec["output"] = {n: (n not in missing) and bool(want.get(n, False) if isinstance(want, dict) else want) for n in G.nodes}
        try:
            cgs = G.init_record(cgs, **rec)
        except KeyError:
            # init_record cannot size the record of a node without any scheduled vertex (num_seqs[name]): compiled recording is
            # unavailable for this instance (D8, outside the listed properties); the caller goes on without a record.
            RECORD_UNAVAILABLE["n"] += 1
    return cgs


class DriveRaised(Exception):
    """Executing a graph that compiled, through its public API, raised. C01 and C10 judge this (the replay / the trainable system does not
    reproduce anything when it cannot run); elsewhere it stays a harness error."""


def drive(G, cgs, api: str, n: int):
    try:
        return _drive(G, cgs, api, n)
    except Exception as e:  # noqa
        import traceback

        raise DriveRaised(f"api={api}: " + "".join(traceback.format_exception(None, e, e.__traceback__))[-900:]) from e


def _drive(G, cgs, api: str, n: int):
    """Drive the compiled graph for n supervisor steps with one of its public APIs. Returns (final graph state, list of supervisor obs or None)."""
    import jax

    obs = None
    if api == "rollout_carry":
        out = jax.jit(G.rollout, static_argnames=("max_steps", "carry_only"))(cgs, max_steps=n, carry_only=True)
    elif api == "rollout_full":
        outs = jax.jit(G.rollout, static_argnames=("max_steps", "carry_only"))(cgs, max_steps=n, carry_only=False)
        out = jax.tree_util.tree_map(lambda x: x[-1], outs)
    elif api == "run_jit":
        f = jax.jit(G.run)
        out = cgs
        for _ in range(n):
            out = f(out)
    elif api == "gym_jit":
        fr, fs = jax.jit(G.reset), jax.jit(G.step)
        out, ss = fr(cgs)
        obs = [ss]
        for _ in range(n):
            out, ss = fs(out)
            obs.append(ss)
    elif api == "run_eager":
        out = cgs
        for _ in range(n):
            out = G.run(out)
    else:
        raise ValueError(api)
    jax.block_until_ready(out)
    return out, obs


# ---------------------------------------------------------------------------------------------------------------
# reference semantics, in plain Python, from the raw graph
# ---------------------------------------------------------------------------------------------------------------


def np_tree(x):
    import jax

    return jax.tree_util.tree_map(onp.asarray, x)


def ref_windows(raw, e: int, nodes) -> dict:
    """{node: {k: {producer: [seq ...]}}}: last (window + extension) messages with seq_in <= k, oldest first, -1 padded."""
    out = {}
    for n2, node in nodes.items():
        seqs = [int(s) for s in raw.vertices[n2].seq[e] if s >= 0]
        out[n2] = {k: {} for k in seqs}
        for c in node.inputs.values():
            n1 = c.output_node.name
            ed = raw.edges[(n1, n2)]
            msgs = [(int(so), int(si), float(tr)) for so, si, tr in zip(ed.seq_out[e], ed.seq_in[e], ed.ts_recv[e]) if so >= 0 and si >= 0]
            # window extension of a trainable delay, computed here and not by rex: enough entries for every delay in [min, max], i.e. for the
            # messages sent during max - min at the producer's rate
            dd = c.delay_dist
            ext = int(onp.ceil(nodes[n1].rate * (dd.max - dd.min))) if type(dd).__name__ == "TrainableDist" else 0
            W = c.window + ext
            ptr = 0
            cons: List[int] = []
            for k in seqs:
                while ptr < len(msgs) and msgs[ptr][1] <= k:
                    cons.append(msgs[ptr][0])
                    ptr += 1
                last = cons[-W:]
                out[n2][k][n1] = [-1] * (W - len(last)) + last
    return out


def validate_schedule(G, raw, nodes, sup_name: str, prune: bool):
    """C07 oracle A. Returns (problems, stats, per-episode execution positions)."""
    import networkx as nx

    T = np_tree(G.timings)
    gens = {s: int(v.generation) for s, v in T.slots.items()}
    E, P = next(iter(T.slots.values())).run.shape
    problems: List[tuple] = []
    stats = dict(scheduled=0, masked=0, extra=0, required=0, episodes=E, partitions=P, ragged_padding=0, pruned_vertex=0)
    positions = []
    maxgen = max(gens.values())
    for e in range(E):
        refw = ref_windows(raw, e, nodes)
        pos = {}
        for s, v in T.slots.items():
            for p in range(P):
                if v.run[e, p]:
                    key = (v.kind, int(v.seq[e, p]))
                    if key in pos:
                        problems.append(("vertex-scheduled-twice", e, key))
                    pos[key] = (p, gens[s])
                    stats["scheduled"] += 1
                    vv = raw.vertices[v.kind]
                    k = key[1]
                    if k < 0 or k >= vv.seq.shape[1] or int(vv.seq[e][k]) != k:
                        problems.append(("slot-names-unknown-vertex", e, key))
                        continue
                    if not (abs(float(vv.ts_start[e][k]) - float(v.ts_start[e, p])) < 1e-6 and abs(float(vv.ts_end[e][k]) - float(v.ts_end[e, p])) < 1e-6):
                        problems.append(("slot-timestamps", e, key, float(vv.ts_start[e][k]), float(v.ts_start[e, p])))
                    for n1, w in v.windows.items():
                        got = [int(x) if x >= 0 else -1 for x in w.seq[e, p]]
                        if got != refw[v.kind][k][n1]:
                            problems.append(("slot-window", e, key, n1, got, refw[v.kind][k][n1]))
                else:
                    stats["masked"] += 1
        for p in range(P):
            if p in refw[sup_name]:
                if pos.get((sup_name, p)) != (p, maxgen):
                    problems.append(("supervisor-step-p-closes-partition-p", e, p, pos.get((sup_name, p))))
        for (kind, k), (p, gg) in pos.items():
            if k > 0:
                if (kind, k - 1) not in pos:
                    problems.append(("gap-in-node-sequence", e, kind, k))
                elif not pos[(kind, k - 1)] < (p, gg):
                    problems.append(("consecutive-steps-out-of-order", e, kind, k, pos[(kind, k - 1)], (p, gg)))
            for n1, ws in refw[kind][k].items():
                for so in ws:
                    if so >= 0:
                        if (n1, so) not in pos:
                            problems.append(("producer-not-scheduled", e, kind, k, n1, so))
                        elif not pos[(n1, so)] < (p, gg):
                            problems.append(("producer-not-strictly-before-consumer", e, kind, k, n1, so, pos[(n1, so)], (p, gg)))
        D = nx.DiGraph()
        for n2 in nodes:
            for k, ws in refw[n2].items():
                D.add_node((n2, k))
                if k > 0:
                    D.add_edge((n2, k - 1), (n2, k))
                for n1, lst in ws.items():
                    for so in lst:
                        if so >= 0:
                            D.add_edge((n1, so), (n2, k))
        sup_steps = [p for p in range(P) if p in refw[sup_name]]
        req = set()
        for p in sup_steps:
            req |= nx.ancestors(D, (sup_name, p)) | {(sup_name, p)}
        if not prune:
            vs = raw.vertices[sup_name]
            desc = {p: nx.descendants(D, (sup_name, p)) for p in sup_steps}
            for n in nodes:
                if n == sup_name:
                    continue  # supervisor steps are required (or not) through the horizon, not through this clause
                vv = raw.vertices[n]
                for k in [int(s) for s in vv.seq[e] if s >= 0]:
                    for p in sup_steps:
                        # "finishes before supervisor step p starts": a zero-duration vertex that ends at the very instant step p starts but
                        # *depends on* step p cannot precede it (it is a descendant, not a predecessor)
                        if float(vv.ts_end[e][k]) <= float(vs.ts_start[e][p]) and (n, k) not in desc[p]:
                            req |= nx.ancestors(D, (n, k)) | {(n, k)}
                            break
        miss = req - set(pos)
        if miss:
            # Known finding D12 (ragged stacks, prune=False): to_connected_graph only attaches vertices that are no ancestor of the episode's
            # LAST supervisor vertex; in an episode longer than the common horizon a vertex may finish before a supervisor step inside the
            # horizon and still only be needed (as an ancestor) by supervisor steps beyond it - it is then scheduled past the horizon.
            beyond = set()
            for p in sorted(k for k in refw[sup_name] if k >= P):
                beyond |= nx.ancestors(D, (sup_name, p))
            if not prune and miss <= beyond:
                problems.append(("required-vertex-only-scheduled-beyond-horizon", e, sorted(miss)[:6], len(miss)))
            else:
                problems.append(("required-vertex-not-scheduled", e, sorted(miss)[:6], len(miss)))
        stats["extra"] += len(set(pos) - req)
        stats["required"] += len(req)
        nvert = sum(int((raw.vertices[n].seq[e] >= 0).sum()) for n in nodes)
        stats["pruned_vertex"] += nvert - len(pos)
        stats["ragged_padding"] += sum(int((raw.vertices[n].seq[e] < 0).sum()) for n in nodes)
        positions.append(pos)
    return problems, stats, positions


def ring_replay(G, raw, nodes, positions, sizes: Optional[Dict[str, int]] = None, padded: bool = False, episodes=None):
    """C08 oracle B: replay the schedule against a model ring buffer per producer."""
    problems: List[tuple] = []
    stats = dict(ring_wrap=0, negative_seq_read=0, reads=0, writes=0, same_generation_read_write_same_slot=0)
    if sizes is None:
        sizes = {n: (max(v) if len(v) else 1) for n, v in G._buffer_sizes.items()}
    if not padded:
        pad = int(getattr(G, "_extra_padding", 0))
        sizes = {n: s + pad for n, s in sizes.items()}
    for e in (range(len(positions)) if episodes is None else episodes):
        pos = positions[e]
        refw = ref_windows(raw, e, nodes)
        ring = {n: [None] * sizes[n] for n in sizes}
        order = sorted(pos.items(), key=lambda kv: kv[1])
        for _, grp in itertools.groupby(order, key=lambda kv: kv[1]):
            grp = list(grp)
            for (kind, k), _pg in grp:  # all reads of a generation happen before its writes
                for n1, lst in refw[kind][k].items():
                    for so in lst:
                        slot = ring[n1][so % sizes[n1]]
                        stats["reads"] += 1
                        if so >= 0 and slot != so:
                            problems.append(("ring-read-wrong-slot", e, kind, k, n1, so, slot, sizes[n1]))
                        if so < 0:
                            stats["negative_seq_read"] += 1
                            if slot is not None:
                                problems.append(("default-output-overwritten-before-read", e, kind, k, n1, so, slot, sizes[n1]))
            # probe: a producer in this generation overwrites the very slot a sibling consumer of the same generation still reads
            writes = {(kind, k % sizes[kind]): k for (kind, k), _pg in grp}
            for (kind, k), _pg in grp:
                for n1, lst in refw[kind][k].items():
                    for so in lst:
                        if (n1, so % sizes[n1]) in writes and writes[(n1, so % sizes[n1])] != so:
                            stats["same_generation_read_write_same_slot"] = stats.get("same_generation_read_write_same_slot", 0) + 1
            for (kind, k), _pg in grp:
                if k >= sizes[kind]:
                    stats["ring_wrap"] += 1
                stats["writes"] += 1
                ring[kind][k % sizes[kind]] = k
    return problems, stats


def expected_runs(G, eps_index: int, n_partitions: int, n_sup: int, sup_name: str) -> Dict[tuple, int]:
    """{(kind, seq): 1} for every slot with run=True in the executed partitions of episode eps_index."""
    T = np_tree(G.timings)
    exp = {}
    for s, v in T.slots.items():
        if v.kind == sup_name:
            continue
        for p in range(n_partitions):
            if v.run[eps_index, p]:
                key = (v.kind, int(v.seq[eps_index, p]))
                exp[key] = exp.get(key, 0) + 1
    for p in range(n_sup):
        exp[(sup_name, p)] = exp.get((sup_name, p), 0) + 1
    return exp
