"""Graph specs (plain JSON), the supported class S, and construction of rex nodes from a spec."""
from __future__ import annotations

import random
from typing import Dict, List, Optional

import networkx as nx

# ---------------------------------------------------------------------------------------------------------------
# distributions (spec side)
# ---------------------------------------------------------------------------------------------------------------


def dist_support(d) -> Optional[List[float]]:
    """Finite support of a distribution spec, or None if continuous."""
    if d[0] == "det":
        return [float(d[1])]
    if d[0] == "mix":
        return [float(x) for x in d[1]]
    return None


def dist_min(d) -> float:
    if d[0] == "det":
        return float(d[1])
    if d[0] == "mix":
        return min(d[1])
    if d[0] == "train":
        return float(d[1])
    return 0.0  # normal / gmm are clipped at 0


def dist_max(d) -> float:
    if d[0] == "det":
        return float(d[1])
    if d[0] == "mix":
        return max(d[1])
    if d[0] == "norm":
        return d[1] + 4 * d[2]
    if d[0] == "gmm":
        return max(m + 4 * s for m, s in zip(d[1], d[2]))
    if d[0] == "train":
        return float(d[2])
    raise ValueError(d)


def make_dist(d):
    import distrax
    import jax.numpy as jnp
    from rex.base import TrainableDist

    if d[0] == "det":
        return distrax.Deterministic(float(d[1]))
    if d[0] == "norm":
        return distrax.Normal(float(d[1]), float(d[2]))
    if d[0] == "mix":
        return distrax.MixtureSameFamily(distrax.Categorical(probs=jnp.array(d[2], dtype=jnp.float32)),
                                         distrax.Normal(jnp.array(d[1], dtype=jnp.float32), jnp.zeros(len(d[1]), dtype=jnp.float32)))
    if d[0] == "gmm":
        return distrax.MixtureSameFamily(distrax.Categorical(probs=jnp.array(d[3], dtype=jnp.float32)),
                                         distrax.Normal(jnp.array(d[1], dtype=jnp.float32), jnp.array(d[2], dtype=jnp.float32)))
    if d[0] == "train":
        return TrainableDist.create(float(d[3]), float(d[1]), float(d[2]), d[4] if len(d) > 4 else "zoh")
    raise ValueError(d)


# ---------------------------------------------------------------------------------------------------------------
# generator
# ---------------------------------------------------------------------------------------------------------------

BASES = [5, 8, 10, 20]
MULTS = [0.5, 0.77, 1, 1, 1.3, 1.5, 2, 3]


def _r6(x):
    return round(float(x), 6)


NAME_POOL = ["zeta", "alpha", "Mid", "m10", "m1", "b", "a_b", "a", "x9", "ctrl", "world", "M2", "sens", "agent_1", "agent"]


def gen_spec(rng: random.Random, max_nodes: int = 5, tie_p: float = 0.3, overrun_bias: float = 0.5, allow_source: bool = False, shadow_p: float = 0.12,
             scramble_p: float = 0.3, twin_p: float = 0.12) -> dict:
    n = rng.randint(2, max_nodes)
    tie = rng.random() < tie_p
    base = rng.choice(BASES)
    if tie:
        rates = [float(base)] + [float(base * rng.choice([1, 1, 2, 0.5])) for _ in range(n - 1)]
    else:
        rates = [float(base)] + [round(base * rng.choice(MULTS), 3) for _ in range(n - 1)]
    lo = min(rates)
    rates = [min(x, lo * 3) for x in rates]
    nodes = []
    for i in range(n):
        per = 1.0 / rates[i]
        kind = rng.choice(["det", "det0"]) if tie else rng.choice(["det", "det0", "mix", "mix", "norm", "gmm"])
        if kind == "det":
            d = ["det", _r6(per * rng.choice([0.25, 0.5] if tie else [0.1, 0.3, 0.5, 0.9]))]
        elif kind == "det0":
            d = ["det", 0.0]
        elif kind == "mix":
            hi = rng.choice([0.8, 1.2, 1.6]) if rng.random() < overrun_bias else rng.choice([0.5, 0.8])
            if rng.random() < 0.3:
                d = ["mix", [_r6(per * 0.1), _r6(per * 0.45), _r6(per * hi)], [0.5, 0.3, 0.2]]
            else:
                d = ["mix", [_r6(per * 0.2), _r6(per * hi)], [0.75, 0.25]]
        elif kind == "norm":
            d = ["norm", _r6(per * 0.4), _r6(per * rng.choice([0.05, 0.2]))]
        else:
            d = ["gmm", [_r6(per * 0.2), _r6(per * 0.9)], [_r6(per * 0.05), _r6(per * 0.1)], [0.7, 0.3]]
        exp = None
        if d[0] in ("mix", "gmm") or rng.random() < 0.5:
            exp = _r6(min(dist_max(d), per) * rng.choice([1.0, 0.5])) if d[0] != "det" else (d[1] if rng.random() < 0.7 else _r6(per * 0.5))
        nodes.append(dict(name=f"n{i}", rate=rates[i], dist=d, delay=exp, sched=rng.choice(["F", "P"]), advance=False, jit=rng.random() < 0.85))
    pairs = []
    for i in range(1, n):
        j = rng.randrange(i)
        pairs.append((i, j) if rng.random() < 0.5 else (j, i))
    for _ in range(rng.randint(0, n)):
        a, b = rng.sample(range(n), 2)
        if (a, b) not in pairs:
            pairs.append((a, b))
    if not allow_source:
        for i in range(n):
            if not any(a == i for a, b in pairs):
                j = rng.choice([x for x in range(n) if x != i])
                pairs.append((i, j))
    G = nx.DiGraph()
    G.add_nodes_from(range(n))
    conns = []
    for a, b in pairs:  # a = dst (receiver), b = src (producer)
        skip = False
        G.add_edge(b, a)
        try:
            nx.find_cycle(G, b)
            skip = True
            G.remove_edge(b, a)
        except nx.NetworkXNoCycle:
            pass
        per = min(1.0 / rates[a], 1.0 / rates[b])
        kind = rng.choice(["det", "det0"]) if tie else rng.choice(["det", "det0", "mix", "mix", "norm"])
        if kind == "det":
            d = ["det", _r6(per * rng.choice([0.25, 0.5] if tie else [0.05, 0.2, 0.5]))]
        elif kind == "det0":
            d = ["det", 0.0]
        elif kind == "mix":
            d = ["mix", [_r6(per * 0.1), _r6(per * rng.choice([0.7, 1.0, 1.4]))], [0.7, 0.3]]
        else:
            d = ["norm", _r6(per * 0.2), _r6(per * 0.15)]
        exp = None
        if d[0] == "mix" or rng.random() < 0.5:
            exp = _r6(min(dist_max(d), per) * rng.choice([1.0, 0.5])) if d[0] != "det" else d[1]
        if tie and rng.random() < 0.35:
            # over-estimated expected delay on a grid that keeps exact ties possible: messages arrive earlier than expected, and the expected
            # arrival can coincide exactly with a step start (the boundary of the buffered-jitter policy)
            exp = _r6(min(per, d[1] + per * rng.choice([0.25, 0.5, 0.75])))
        conns.append(dict(dst=a, src=b, blocking=rng.random() < 0.4, skip=skip or rng.random() < 0.1,
                          jitter=rng.choice(["L", "L", "B"]), window=rng.randint(1, 4) if rng.random() < 0.93 else rng.randint(5, 8), dist=d, delay=exp))
    for i in range(n):
        if any(c["dst"] == i and c["blocking"] for c in conns) and rng.random() < 0.25:
            nodes[i]["advance"] = True
    # supervisor must have an input
    cands = [i for i in range(n) if any(c["dst"] == i for c in conns)]
    spec = dict(nodes=nodes, conns=conns, sup=rng.choice(cands), tie=tie)
    if not allow_source and rng.random() < 0.85:
        # close the loop: every node is (transitively) influenced by the supervisor, so nothing free-runs
        for i in sorted(set(range(n)) - reachable_from_sup(spec)):
            if i in reachable_from_sup(spec):
                continue
            srcs = sorted(reachable_from_sup(spec))
            b = rng.choice(srcs)
            per = min(1.0 / rates[i], 1.0 / rates[b])
            d = ["det", _r6(per * rng.choice([0.0, 0.25]))]
            conns.append(dict(dst=i, src=b, blocking=False, skip=True, jitter="L", window=rng.randint(1, 2), dist=d, delay=None))
    spec["open_loop"] = len(reachable_from_sup(spec)) < n
    for k_, c_ in enumerate(conns):
        if rng.random() < shadow_p:
            c_["name"] = f"in{k_}"  # the receiver knows this input under a shadow name: connect(..., name=...)
            others = [i for i in range(n) if i != c_["src"] and not any(x["dst"] == c_["dst"] and x["src"] == i for x in conns)
                      and not any(x is not c_ and x["dst"] == c_["dst"] and x.get("name") == ("@%d" % i) for x in conns)]
            if others and rng.random() < 0.4:
                # ... and that shadow name happens to be the name of another node of the graph (one that is not an input of this receiver):
                # legal, and nothing may look the connection's producer up under the input name. "@i" is resolved to node i's final name below.
                c_["name"] = "@%d" % rng.choice(others)
    _repair(spec)
    spec["share_dists"] = rng.random() < 0.35
    spec["_resolve_names"] = True
    if rng.random() < twin_p:
        # a "twin": a second node of the same class with exactly the same inputs (same producers, windows, policies and - shared - distribution
        # objects), rate and settings as an existing one, e.g. two identical loggers / redundant controllers. Nothing that is cached per kind of
        # node (compiled steps, warm-up results) may be shared between the two objects.
        cands = [i for i in range(n) if i != spec["sup"] and any(c["dst"] == i for c in conns)]
        if cands:
            j = rng.choice(cands)
            nodes.append(dict(nodes[j], name=f"n{n}"))
            for c in [c for c in conns if c["dst"] == j]:
                conns.append(dict(c, dst=n))
            spec["share_dists"] = True
            spec["twin"] = [j, n]
            n += 1
            spec["open_loop"] = len(reachable_from_sup(spec)) < n
    if rng.random() < scramble_p:
        # nothing may depend on how nodes are called, in which order they sit in the `nodes` dict or in which order they were connected:
        # names whose alphabetical order differs from the creation order (some are prefixes of others), shuffled dict and connect order
        for nd, nm in zip(nodes, rng.sample(NAME_POOL, n)):
            nd["name"] = nm
        spec["dict_order"] = rng.sample(range(n), n)
        spec["conn_order"] = rng.sample(range(len(conns)), len(conns))
    del spec["_resolve_names"]
    for c_ in conns:
        if str(c_.get("name", "")).startswith("@"):
            c_["name"] = nodes[int(c_["name"][1:])]["name"]
    return spec


def reachable_from_sup(spec) -> set:
    G = nx.DiGraph()
    G.add_nodes_from(range(len(spec["nodes"])))
    G.add_edges_from((c["src"], c["dst"]) for c in spec["conns"])
    return set(nx.descendants(G, spec["sup"])) | {spec["sup"]}


def _zero_latency_sccs(spec) -> List[set]:
    G = nx.DiGraph()
    G.add_nodes_from(range(len(spec["nodes"])))
    for c in spec["conns"]:
        w = dist_min(spec["nodes"][c["src"]]["dist"]) + dist_min(c["dist"])
        if w <= 0.0:
            G.add_edge(c["src"], c["dst"])
    return [s for s in nx.strongly_connected_components(G) if len(s) > 1]


def _instantaneous(spec, scc) -> bool:
    """A zero-latency cycle is *instantaneous in time* when some step on it starts the moment its input arrives: an advance=True
    node, or a blocking connection inside the cycle (a blocked step starts exactly at the arrival of the message it waits for)."""
    if any(spec["nodes"][i]["advance"] for i in scc):
        return True
    for c in spec["conns"]:
        if c["blocking"] and c["src"] in scc and c["dst"] in scc:
            return True
    return False


def _repair(spec):
    """Make a generated spec satisfy rule 7 of S: no instantaneous zero-latency cycle (give one node on it a positive delay)."""
    for _ in range(20):
        bad = [scc for scc in _zero_latency_sccs(spec) if _instantaneous(spec, scc)]
        if not bad:
            return
        for scc in bad:
            i = sorted(scc)[0]
            nd = spec["nodes"][i]
            per = 1.0 / nd["rate"]
            nd["dist"] = ["det", _r6(per * 0.125)]
            if nd.get("delay") is not None:
                nd["delay"] = max(nd["delay"], nd["dist"][1])


NUM_TOKENS = 10  # rex/asynchronous.py `_start`: how many output timestamps a node simulates ahead of its executed steps


def expected_phases(spec) -> List[float]:
    """Longest expected-delay path into each node over non-skipped connections (a default expected delay is bounded by the maximum)."""
    def ed(x):
        return x["delay"] if x.get("delay") is not None else dist_max(x["dist"])

    memo: Dict[int, float] = {}

    def ph(i, stack=()):
        if i in memo:
            return memo[i]
        if i in stack:
            return 0.0
        best = 0.0
        for c in spec["conns"]:
            if c["dst"] == i and not c["skip"]:
                best = max(best, ph(c["src"], stack + (i,)) + ed(spec["nodes"][c["src"]]) + ed(c))
        memo[i] = best
        return best

    return [ph(i) for i in range(len(spec["nodes"]))]


def _lookahead_excess(spec) -> Optional[str]:
    """Rule 9 (documented limitation of the runtime, NOTE in `_AsyncNodeWrapper._start`): a node u simulates its output timestamps only
    NUM_TOKENS steps ahead of the steps it has executed. If u has a non-blocking input from v and v's step times depend, through blocking
    connections, on u's output timestamps, u's step k can start only once v has announced an output later than that step, which needs
    u's timestamps up to about v's phase: more than the look-ahead when rate_u * (phase_v - phase_u) approaches NUM_TOKENS - then nothing
    ever starts. Bound used: rate_u * (phase_v - phase_u) <= NUM_TOKENS - 4 (one tick each for index->count, v's period, overrun lag, rounding)."""
    n = len(spec["nodes"])
    B = nx.DiGraph()
    B.add_nodes_from(range(n))
    B.add_edges_from((c["src"], c["dst"]) for c in spec["conns"] if c["blocking"])
    ph = None
    for c in spec["conns"]:
        if c["blocking"]:
            continue
        u, v = c["dst"], c["src"]
        if u != v and nx.has_path(B, u, v):
            ph = ph or expected_phases(spec)
            # (the calibrated deterministic chain family may go up to its measured limit, `lookahead_bound`; everything else keeps 4 ticks of margin)
            if spec["nodes"][u]["rate"] * (ph[v] - ph[u]) > spec.get("lookahead_bound", NUM_TOKENS - 4) + 1e-9:
                return "rule9: look-ahead of num_tokens output timestamps too short for a blocking path back into a non-blocking input"
    return None


def lookahead_chain(R: float, r: float, hops: int, dfrac: float, adv: bool = False) -> dict:
    """Directed family used to calibrate rule 9: a fast supervisor n0 (rate R), a blocking chain of `hops` slower nodes (rate r, deterministic
    computation delay dfrac / r) and a skipped non-blocking connection from the last one back to n0. x = R * phase(last) is the number of
    output timestamps n0 has to announce before the first one comes back."""
    nodes = [dict(name="n0", rate=R, dist=["det", round(0.2 / R, 6)], delay=None, sched="P", advance=False, jit=True)]
    conns = []
    for i in range(1, hops + 1):
        nodes.append(dict(name=f"n{i}", rate=r, dist=["det", round(dfrac / r, 6)], delay=None, sched="P", advance=adv and i == hops, jit=True))
        conns.append(dict(dst=i, src=i - 1, blocking=True, skip=False, jitter="L", window=1, dist=["det", 0.0], delay=None))
    conns.append(dict(dst=0, src=hops, blocking=False, skip=True, jitter="L", window=1, dist=["det", 0.0], delay=None))
    return dict(nodes=nodes, conns=conns, sup=0, tie=False, open_loop=False)


def in_S(spec) -> Optional[str]:
    """Static membership test of the supported class S (DESIGN 3.1). Returns None if supported, else the reason."""
    n = len(spec["nodes"])
    G = nx.DiGraph()
    G.add_nodes_from(range(n))
    for c in spec["conns"]:
        if not c["skip"]:
            G.add_edge(c["src"], c["dst"])
    try:
        nx.find_cycle(G)
        return "rule1: un-skipped cycle"
    except nx.NetworkXNoCycle:
        pass
    for c in spec["conns"]:
        ra, rb = spec["nodes"][c["dst"]]["rate"], spec["nodes"][c["src"]]["rate"]
        if max(ra, rb) / min(ra, rb) > 3.0 + 1e-9:
            return "rule2: rate ratio > 3"
        per = 1.0 / max(ra, rb)
        if c["delay"] is not None and c["delay"] > per + 2e-6:
            return "rule3: expected comm delay > period"
        if dist_max(c["dist"]) > 1.5 * per + 1e-9 and c["dist"][0] != "train":
            return "rule3: comm delay sample > 1.5 period"
        if c["dist"][0] == "train" and (c["blocking"] or c["jitter"] != "L"):
            return "rule4: trainable on blocking/BUFFER"
    for i, nd in enumerate(spec["nodes"]):
        per = 1.0 / nd["rate"]
        if dist_max(nd["dist"]) > 1.61 * per:
            return "rule3: comp delay sample > 1.6 period"
        if nd["delay"] is not None and nd["delay"] > per + 2e-6:
            return "rule3: expected comp delay > period"
        ins = [c for c in spec["conns"] if c["dst"] == i]
        if nd["advance"] and not any(c["blocking"] for c in ins):
            return "rule4: advance without blocking input"
        if not ins and not spec.get("allow_source"):
            return "rule5: source node"
    if not any(c["dst"] == spec["sup"] for c in spec["conns"]):
        return "rule6: supervisor without input"
    U = nx.Graph()
    U.add_nodes_from(range(n))
    U.add_edges_from((c["src"], c["dst"]) for c in spec["conns"])
    if not nx.is_connected(U):
        return "rule6: not weakly connected"
    for scc in _zero_latency_sccs(spec):
        if _instantaneous(spec, scc):
            return "rule7: zero-latency cycle that is instantaneous in time (advance node or blocking connection on it)"
    r9 = _lookahead_excess(spec)
    if r9 is not None:
        return r9
    if bool(spec.get("open_loop")) != (len(reachable_from_sup(spec)) < n):
        return "open_loop flag wrong"
    seen = set()
    for c in spec["conns"]:
        if (c["dst"], c["src"]) in seen:
            return "duplicate connection"
        seen.add((c["dst"], c["src"]))
    return None


# ---------------------------------------------------------------------------------------------------------------
# construction
# ---------------------------------------------------------------------------------------------------------------


def build_nodes(spec, trace: bool = True, hash_recv: bool = True) -> Dict[str, "object"]:
    import rex.constants as const
    from .probes import ProbeNode

    nodes = []
    _made: Dict[str, object] = {}
    _plain = globals()["make_dist"]

    def make_dist(d):  # noqa: F811
        # `share_dists`: the user creates one distribution object per distinct setting and passes it to every node / connection that uses it
        # (`d = Deterministic(0.01)` once, then `connect(..., delay_dist=d)` everywhere) instead of one object per use
        if not spec.get("share_dists") or d[0] == "train":
            return _plain(d)
        key = repr(d)
        if key not in _made:
            _made[key] = _plain(d)
        return _made[key]

    for i, nd in enumerate(spec["nodes"]):
        nodes.append(ProbeNode(name=nd["name"], rate=nd["rate"], delay_dist=make_dist(nd["dist"]), delay=nd.get("delay"), idx=i, trace=trace,
                               hash_recv=hash_recv, ts_shift=nd.get("ts_shift", 0.0), scheduling=const.Scheduling.FREQUENCY if nd["sched"] == "F" else const.Scheduling.PHASE,
                               advance=nd["advance"]))
    for i, nd in enumerate(spec["nodes"]):
        if "stop_result" in nd:
            nodes[i].stop_result = nd["stop_result"]
    co = [k for k in spec.get("conn_order", []) if k < len(spec["conns"])]
    for k in co + [k for k in range(len(spec["conns"])) if k not in co]:
        c = spec["conns"][k]
        nodes[c["dst"]].connect(nodes[c["src"]], blocking=c["blocking"], skip=c["skip"], window=c["window"],
                                jitter=const.Jitter.LATEST if c["jitter"] == "L" else const.Jitter.BUFFER, delay_dist=make_dist(c["dist"]),
                                delay=c.get("delay"), name=c.get("name"))
    do = [i for i in spec.get("dict_order", []) if i < len(nodes)]
    return {nodes[i].name: nodes[i] for i in do + [i for i in range(len(nodes)) if i not in do]}


def spec_digest(spec) -> str:
    import hashlib
    import json

    return hashlib.sha256(json.dumps(spec, sort_keys=True).encode()).hexdigest()[:16]


def add_leaves(spec, rng: random.Random, max_leaves: int = 2) -> int:
    """Adds consumer-only ("sink") nodes: they are never ancestors of a supervisor step, which is what prune on/off is about."""
    n0 = len(spec["nodes"])
    k = rng.randint(1, max_leaves)
    for j in range(k):
        i = len(spec["nodes"])
        src = rng.randrange(n0)
        mult = 0.5 if (k >= 2 and j == 0) else (2 if (k >= 2 and j == 1) else rng.choice([0.5, 1, 1, 2]))
        rate = min(max(round(spec["nodes"][src]["rate"] * mult, 3), min(x["rate"] for x in spec["nodes"][:n0])), 3 * min(x["rate"] for x in spec["nodes"][:n0]))
        if max(rate, spec["nodes"][src]["rate"]) / min(rate, spec["nodes"][src]["rate"]) > 3:
            rate = spec["nodes"][src]["rate"]
        per = 1.0 / rate
        if k >= 2 and j == 0:
            d = rng.choice([["det", _r6(per * 1.5)], ["mix", [_r6(per * 0.3), _r6(per * 1.55)], [0.4, 0.6]]])  # long-running sink
        elif k >= 2 and j == 1:
            d = ["det", _r6(per * rng.choice([0.02, 0.1]))]  # short sink: different completion order than start order
        else:
            d = rng.choice([["det", _r6(per * 0.05)], ["det", _r6(per * 0.9)], ["mix", [_r6(per * 0.1), _r6(per * 1.5)], [0.6, 0.4]], ["det", _r6(per * 1.4)]])
        spec["nodes"].append(dict(name=f"n{i}", rate=rate, dist=d, delay=_r6(min(dist_max(d), per)), sched=rng.choice(["F", "P"]), advance=False, jit=True))
        perc = min(per, 1.0 / spec["nodes"][src]["rate"])
        spec["conns"].append(dict(dst=i, src=src, blocking=False, skip=False, jitter="L", window=rng.randint(1, 3), dist=["det", _r6(perc * rng.choice([0.0, 0.2]))], delay=None))
    spec["open_loop"] = len(reachable_from_sup(spec)) < len(spec["nodes"])
    return k


def add_fast_sinks(spec, rng: random.Random, max_levels: int = 2) -> int:
    """Adds a chain of consumer-only nodes, each up to 3x faster than its source (rule 2 is per connection), so that one node kind runs
    9-27x as often as the supervisor: more than 10 slots of one kind per partition in the uniform (scan) execution paths."""
    src = max(range(len(spec["nodes"])), key=lambda i: spec["nodes"][i]["rate"])
    added = 0
    sup_rate = spec["nodes"][spec["sup"]]["rate"]
    cap = sup_rate * rng.choice([11.5, 12.5, 13.5])  # just beyond 10 slots per partition; more only makes the compiled programs huge
    for j in range(max_levels):
        i = len(spec["nodes"])
        if spec["nodes"][src]["rate"] >= cap - 1e-9:
            break
        rate = round(min(spec["nodes"][src]["rate"] * 3, cap), 3)
        per = 1.0 / rate
        d = rng.choice([["det", _r6(per * 0.2)], ["mix", [_r6(per * 0.1), _r6(per * 0.9)], [0.7, 0.3]], ["det", 0.0]])
        spec["nodes"].append(dict(name=f"n{i}", rate=rate, dist=d, delay=_r6(min(dist_max(d), per)), sched=rng.choice(["F", "P"]), advance=False, jit=True))
        spec["conns"].append(dict(dst=i, src=src, blocking=False, skip=False, jitter=rng.choice(["L", "B"]), window=rng.randint(1, 3), dist=["det", _r6(per * rng.choice([0.0, 0.3]))], delay=None))
        src = i
        added += 1
    spec["open_loop"] = len(reachable_from_sup(spec)) < len(spec["nodes"])
    return added


def input_name(spec, c) -> str:
    """Key of connection c in the receiver's `inputs` (a shadow name if one was given, else the producer's name)."""
    return c.get("name") or spec["nodes"][c["src"]]["name"]
