"""Seams: rebinding of the four names rex.asynchronous resolves in its own module namespace.

Only applied when REX_VERIF=1 (the checks set it themselves).  No change to /repo is needed.
"""
from __future__ import annotations

import os
import sys
import threading

from . import kernel as km

REPO = os.environ.get("REX_VERIF_REPO", "/repo")


def configure_env():
    """Must run before jax is imported."""
    os.environ.setdefault("JAX_PLATFORMS", "cpu")
    os.environ.setdefault("XLA_FLAGS", "--xla_cpu_multi_thread_eigen=false intra_op_parallelism_threads=1")
    os.environ.setdefault("OMP_NUM_THREADS", "1")
    os.environ.setdefault("TF_CPP_MIN_LOG_LEVEL", "3")
    os.environ["REX_VERIF"] = "1"
    if REPO not in sys.path:
        sys.path.insert(0, REPO)


_installed = False


def _quiet_imports():
    """Import jax + rex with fd 2 pointed at /dev/null: this image prints NumPy-ABI and CUDA-plugin noise on import."""
    if os.environ.get("SIMREX_VERBOSE_IMPORT") == "1":
        return
    import warnings

    warnings.filterwarnings("ignore")
    saved = os.dup(2)
    devnull = os.open(os.devnull, os.O_WRONLY)
    try:
        sys.stderr.flush()
        os.dup2(devnull, 2)
        try:
            import jax

            jax.devices()
            import rex.asynchronous  # noqa
            import rex.graph  # noqa
        except Exception:
            pass
    finally:
        sys.stderr.flush()
        os.dup2(saved, 2)
        os.close(saved)
        os.close(devnull)


def install():
    global _installed
    if os.environ.get("REX_VERIF") != "1":
        raise km.HarnessError("REX_VERIF=1 is required to install the simulation seams")
    if _installed:
        import rex.asynchronous as ra

        return ra
    _quiet_imports()
    import rex.asynchronous as ra

    src = os.path.realpath(ra.__file__)
    if not src.startswith(os.path.realpath(REPO) + os.sep):
        raise km.HarnessError(f"rex imported from {src}, expected under {REPO}")
    for name in ("ThreadPoolExecutor", "Future", "RLock", "time"):
        if not hasattr(ra, name):
            raise km.HarnessError(f"seam lost: rex.asynchronous no longer binds `{name}`; a guarded hook in /repo is needed")
    ra.ThreadPoolExecutor = km.SimExecutor
    ra.Future = km.SimFuture
    ra.RLock = km.SimRLock
    ra.time = km.SimTime
    _installed = True
    try:
        import jax

        cache = os.environ.get("SIMREX_JAX_CACHE", os.path.join(os.path.dirname(os.path.dirname(os.path.abspath(__file__))), ".cache", "jax"))
        if cache and cache != "off":
            os.makedirs(cache, exist_ok=True)
            jax.config.update("jax_compilation_cache_dir", cache)
            jax.config.update("jax_persistent_cache_min_compile_time_secs", 0.0)
            jax.config.update("jax_persistent_cache_min_entry_size_bytes", -1)
    except Exception:
        pass
    import rex.utils as ru

    ru.NODE_LOGGING_ENABLED = False  # logging only; never read by scheduling code
    return ra


_ALLOWED_THREAD_PREFIXES = ("MainThread", "sim:", "pydevd", "QueueFeederThread", "QueueManagerThread", "Thread-", "ThreadPoolExecutor", "ExecutorManagerThread", "asyncio", "jax", "Dummy")


def tripwires(graph) -> list:
    """Checks that the seams are really in effect for this AsyncGraph. Returns a list of problems (harness errors)."""
    import rex.asynchronous as ra

    problems = []
    if ra.time is not km.SimTime:
        problems.append("rex.asynchronous.time is not SimTime")
    if ra.Future is not km.SimFuture or ra.ThreadPoolExecutor is not km.SimExecutor or ra.RLock is not km.SimRLock:
        problems.append("rex.asynchronous seam names were rebound by someone else")
    for name, n in graph._async_nodes.items():
        if not isinstance(n._executor, km.SimExecutor):
            problems.append(f"node {name}: executor is {type(n._executor).__name__}")
        if not isinstance(n._lock, km.SimRLock):
            problems.append(f"node {name}: lock is {type(n._lock).__name__}")
        for iname, c in n.inputs.items():
            if not isinstance(c._executor, km.SimExecutor):
                problems.append(f"conn {name}<-{iname}: executor is {type(c._executor).__name__}")
            if not isinstance(c._lock, km.SimRLock):
                problems.append(f"conn {name}<-{iname}: lock is {type(c._lock).__name__}")
    sim_names = {"sim:" + t.name for t in km.K.threads}
    for th in threading.enumerate():
        if th.name.startswith("sim:") and th.name not in sim_names:
            problems.append(f"stray sim thread {th.name}")
    return problems
