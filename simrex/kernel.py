"""simrex kernel: deterministic baton-passing scheduler for real OS threads, virtual clock, seeded strategies.

Exactly one *sim thread* runs at any moment (it "holds the baton"); all others are parked on their private gate
semaphore.  Every synchronisation primitive rex.asynchronous uses (executor, future, lock, time) is replaced by a
class from this module (see seams.py) whose operations are *decision points*: the running thread records its own
new state and calls ``Kernel.switch``, which asks the strategy which runnable thread continues.

All kernel data is only touched by the thread holding the baton, so the kernel itself needs no locks.
Nothing in here reads a real clock or an unseeded PRNG.
"""
from __future__ import annotations

import hashlib
import heapq
import random
import sys
import threading
from collections import deque
from concurrent.futures import CancelledError
from concurrent.futures import TimeoutError as FutTimeoutError
from typing import Any, Callable, Dict, List, Optional

RUNNABLE, BLOCKED, SLEEPING, IDLE, DONE, DRAINING = "runnable", "blocked", "sleeping", "idle", "done", "draining"

EPOCH = 1000.0  # virtual wall clock starts here (non-zero on purpose)


class SimAbort(BaseException):
    """Raised inside every parked sim thread when a run is aborted (deadlock, budget, harness error)."""


class SimStall(Exception):
    """Delivered to the user thread: the run cannot make progress (deadlock) or exceeded its decision budget."""

    def __init__(self, kind: str, snapshot: list, call: Optional[str], detail: str = ""):
        super().__init__(f"{kind} during {call}: {detail}")
        self.kind = kind  # "deadlock" | "livelock"
        self.snapshot = snapshot
        self.call = call
        self.detail = detail


class ReplayDiverged(Exception):
    pass


class CallTimeExceeded(Exception):
    pass


class HarnessError(Exception):
    pass


class SimThread:
    __slots__ = ("name", "idx", "gate", "state", "waiting_on", "wake_at", "passed", "prio", "real", "is_user", "executor", "frozen_until", "timed_out")

    def __init__(self, name: str, idx: int, is_user: bool = False):
        self.name = name
        self.idx = idx
        self.gate = threading.Semaphore(0)
        self.state = RUNNABLE
        self.waiting_on = None
        self.wake_at = None
        self.passed = 0  # times passed over while runnable (fairness)
        self.prio = 0.0
        self.real = None
        self.is_user = is_user
        self.executor = None
        self.frozen_until = -1
        self.timed_out = False

    def __repr__(self):
        return f"<SimThread {self.name} {self.state}>"


# ------------------------------------------------------------------------------------------------------------------
# Strategies.  ``pick`` returns a thread out of ``cands`` (non-empty list in stable creation order).
# ------------------------------------------------------------------------------------------------------------------


class Strategy:
    name = "base"

    def __init__(self, rng: random.Random, params: dict, kernel: "Kernel"):
        self.rng = rng
        self.params = params
        self.k = kernel

    def eligible(self, runnable: List[SimThread]) -> List[SimThread]:
        return runnable

    def pick(self, cands: List[SimThread], me: Optional[SimThread]) -> SimThread:
        raise NotImplementedError


class RoundRobin(Strategy):
    name = "rr"

    def __init__(self, rng, params, kernel):
        super().__init__(rng, params, kernel)
        self.last = -1

    def pick(self, cands, me):
        for t in cands:
            if t.idx > self.last:
                self.last = t.idx
                return t
        self.last = cands[0].idx
        return cands[0]


class Uniform(Strategy):
    name = "uniform"

    def pick(self, cands, me):
        return cands[self.rng.randrange(len(cands))]


class PCT(Strategy):
    """Random static priorities with d priority change points at random decision indices."""

    name = "pct"

    def __init__(self, rng, params, kernel):
        super().__init__(rng, params, kernel)
        d = int(params.get("d", 2))
        horizon = int(params.get("horizon", 6000))
        self.change = sorted(rng.randrange(horizon) for _ in range(d))
        self.n = 0
        self.prio: Dict[int, float] = {}

    def _p(self, t):
        if t.idx not in self.prio:
            self.prio[t.idx] = self.rng.random() + 1.0
        return self.prio[t.idx]

    def pick(self, cands, me):
        self.n += 1
        best = max(cands, key=self._p)
        if self.change and self.n >= self.change[0]:
            self.change.pop(0)
            self.prio[best.idx] = self.rng.random() * 0.5  # demote the currently highest
            best = max(cands, key=self._p)
        return best


class Starve(Strategy):
    """Freeze a random subset of threads for a window of w decisions, release, repeat."""

    name = "starve"

    def __init__(self, rng, params, kernel):
        super().__init__(rng, params, kernel)
        self.w = int(params.get("w", 120))
        self.frac = float(params.get("frac", 0.4))
        self.until = 0
        self.frozen = set()
        self.n = 0

    def eligible(self, runnable):
        self.n += 1
        if self.n >= self.until:
            # new window: alternate frozen / free windows
            if self.frozen:
                self.frozen = set()
                self.until = self.n + self.rng.randrange(10, self.w)
            else:
                ids = [t.idx for t in self.k.threads]
                self.frozen = {i for i in ids if self.rng.random() < self.frac}
                self.until = self.n + self.rng.randrange(10, self.w)
                if self.frozen:
                    self.k.count("starve")
        el = [t for t in runnable if t.idx not in self.frozen]
        return el if el else runnable

    def pick(self, cands, me):
        return cands[self.rng.randrange(len(cands))]


class UserBias(Strategy):
    """user-eager: the user thread wins every tie; user-lazy: it loses every tie (both fair through K)."""

    name = "user"

    def __init__(self, rng, params, kernel):
        super().__init__(rng, params, kernel)
        self.eager = bool(params.get("eager", True))

    def pick(self, cands, me):
        users = [t for t in cands if t.is_user]
        others = [t for t in cands if not t.is_user]
        if self.eager and users:
            return users[0]
        if (not self.eager) and others:
            return others[self.rng.randrange(len(others))]
        return cands[self.rng.randrange(len(cands))]


class Burst(Strategy):
    """Keep running the same thread for a random quantum before reconsidering (time slices)."""

    name = "burst"

    def __init__(self, rng, params, kernel):
        super().__init__(rng, params, kernel)
        self.q = int(params.get("q", 12))
        self.left = 0
        self.curidx = -1

    def pick(self, cands, me):
        if self.left > 0:
            for t in cands:
                if t.idx == self.curidx:
                    self.left -= 1
                    return t
        t = cands[self.rng.randrange(len(cands))]
        self.curidx = t.idx
        self.left = self.rng.randrange(1, self.q + 1)
        return t


STRATEGIES = {c.name: c for c in (RoundRobin, Uniform, PCT, Starve, UserBias, Burst)}


# ------------------------------------------------------------------------------------------------------------------
# Kernel
# ------------------------------------------------------------------------------------------------------------------


class Kernel:
    def __init__(self):
        self.active = False
        self.threads: List[SimThread] = []
        self.by_ident: Dict[int, SimThread] = {}
        self.executors: List["SimExecutor"] = []
        self._clear()

    # --- run life cycle --------------------------------------------------------------------------------------
    def _clear(self):
        self.now = EPOCH
        self.timers: list = []
        self.tseq = 0
        self.ndec = 0  # all decision points
        self.nchoice = 0  # decision points with >= 2 candidates
        self.decisions: List[int] = []  # chosen candidate index at each choice
        self.widths: List[int] = []  # number of candidates at each choice
        self.replay: Optional[List[int]] = None
        self.replay_widths: Optional[List[int]] = None
        self.h = hashlib.sha256()
        self.aborting = False
        self.terminating = False
        self.stall: Optional[SimStall] = None
        self.fair_k = 64
        self.strategy: Optional[Strategy] = None
        self.line_rate = 0.0
        self.line_rng = random.Random(0)
        self.fault_rng = random.Random(0)
        self.stall_p = 0.0
        self.stall_max = 0.0
        self.call_name: Optional[str] = None
        self.call_dec0 = 0
        self.call_t0 = 0.0
        self.pause_rate = 0.0
        self.call_budget = 10**9
        self.max_call_decisions = 0
        self.counts: Dict[str, int] = {}
        self.task_errors: list = []
        self.callback_errors: list = []
        self.task_seq: Dict[str, list] = {}
        self.preempts = 0
        self.last: Optional[SimThread] = None
        self.drain_deadline: Optional[int] = None
        self.hot_lines: set = set()
        self.hot_rate = 0.0
        self.freeze_p = 0.0
        self.lines_since_switch = 0
        self.spin_guard = False

    def count(self, key: str, n: int = 1):
        self.counts[key] = self.counts.get(key, 0) + n

    def begin_run(self, fair_k: int = 64, line_rate: float = 0.0, line_seed: int = 0, fault_seed: int = 0,
                  replay: Optional[dict] = None, hot_rate: float = 0.0, spin_guard: bool = False, pause_rate: float = 0.0):
        if self.active:
            raise HarnessError("begin_run while a run is active")
        if self.threads:
            raise HarnessError("threads left over from previous run")
        self._clear()
        self.active = True
        self.fair_k = fair_k
        self.line_rate = line_rate
        self.hot_rate = hot_rate
        self.hot_lines = hot_lines() if hot_rate > 0.0 else set()
        self.spin_guard = spin_guard
        self.line_rng = random.Random(line_seed)
        self.pause_rate = pause_rate
        self.pause_rng = random.Random(line_seed ^ 0x9A05E)
        self.fault_rng = random.Random(fault_seed)
        if replay is not None:
            self.replay = list(replay["decisions"])
            self.replay_widths = list(replay["widths"]) if replay.get("widths") else None
        u = SimThread("user", 0, is_user=True)
        u.real = threading.current_thread()
        self.threads.append(u)
        self.by_ident[threading.get_ident()] = u
        self.last = u
        self.set_strategy({"name": "rr"}, 0)
        if self.line_rate > 0 or self.hot_rate > 0 or self.spin_guard or self.pause_rate > 0:
            sys.settrace(_global_tracer)

    def set_strategy(self, spec: dict, seed: int):
        cls = STRATEGIES[spec["name"]]
        self.strategy = cls(random.Random(seed), spec, self)
        self.ev("strategy", spec["name"])

    def set_stalls(self, p: float, dmax: float):
        self.stall_p, self.stall_max = p, dmax

    def call_begin(self, name: str, budget: int):
        self.call_name = name
        self.call_dec0 = self.ndec
        self.call_t0 = self.now
        self.call_budget = budget
        self.ev("call", name)

    def call_end(self):
        used = self.ndec - self.call_dec0
        self.max_call_decisions = max(self.max_call_decisions, used)
        self.call_name = None
        self.call_budget = 10**9
        self.ev("ret",)
        return used

    def end_run(self) -> dict:
        """Drain remaining work (unless aborted), terminate and join all worker threads."""
        me = self.cur()
        sys.settrace(None)
        if not self.aborting:
            try:
                self.drain()
            except SimAbort:
                pass
        self.terminating = True
        self.aborting = True
        for t in self.threads:
            if t is not me:
                t.gate.release()
        leaked = []
        for t in self.threads:
            if t is not me and t.real is not None:
                t.real.join(timeout=20)
                if t.real.is_alive():
                    leaked.append(t.name)
        stats = dict(decisions=self.ndec, choices=self.nchoice, preempts=self.preempts, max_call_decisions=self.max_call_decisions,
                     virtual_wall_s=self.now - EPOCH, digest=self.h.hexdigest(), counts=dict(self.counts), leaked=leaked,
                     nthreads=len(self.threads))
        self.threads = []
        self.by_ident = {}
        self.executors = []
        self.active = False
        if leaked:
            raise HarnessError(f"worker threads did not exit: {leaked}")
        return stats

    # --- helpers -------------------------------------------------------------------------------------------------
    def cur(self) -> Optional[SimThread]:
        return self.by_ident.get(threading.get_ident())

    def ev(self, *a):
        self.h.update(repr((self.ndec,) + a).encode())

    def snapshot(self):
        return [(t.name, t.state, _describe(t.waiting_on), len(t.executor.q) if t.executor is not None else None) for t in self.threads]

    # --- the scheduler -------------------------------------------------------------------------------------------
    def _fire_due(self, jump: bool) -> bool:
        """Wake every timer that is due; with jump=True first advance the clock to the earliest pending timer."""
        fired = False
        while self.timers:
            wake, _, t, token = self.timers[0]
            if t.wake_at != (wake, token) or t.state not in (SLEEPING, BLOCKED):
                heapq.heappop(self.timers)  # stale entry
                continue
            if wake > self.now:
                if not jump or fired:
                    break
                if self.call_name is not None and wake - self.call_t0 > CALL_TIME_BUDGET:
                    # every thread waits, and the earliest one to wake sleeps beyond any plausible duration of one lifecycle call
                    raise CallTimeExceeded(f"lifecycle call {self.call_name}() needs more than {CALL_TIME_BUDGET:.0f} s of wall-clock time: "
                                           f"every thread is waiting and the next one to wake ({t.name}) sleeps for another {wake - self.now:.1f} s")
                self.now = wake
            heapq.heappop(self.timers)
            t.wake_at = None
            t.timed_out = t.state == BLOCKED
            t.state = RUNNABLE
            fired = True
        return fired

    def _choose(self, me: Optional[SimThread]) -> Optional[SimThread]:
        if self.drain_deadline is not None and self.ndec > self.drain_deadline:
            # bounded drain: hand the baton back to the draining user thread (forced, deterministic in the decision count)
            self.drain_deadline = None
            for t in self.threads:
                if t.state == DRAINING:
                    t.state = RUNNABLE
                    return t
        if self.timers:
            self._fire_due(jump=False)
        runnable = [t for t in self.threads if t.state == RUNNABLE]
        while not runnable:
            if self._fire_due(jump=True):
                runnable = [t for t in self.threads if t.state == RUNNABLE]
                continue
            drainers = [t for t in self.threads if t.state == DRAINING]
            if drainers:
                drainers[0].state = RUNNABLE
                runnable = drainers
                break
            return None
        if len(runnable) == 1:
            chosen = runnable[0]
        else:
            if self.replay is not None:
                if self.nchoice >= len(self.replay):
                    raise ReplayDiverged(f"replay exhausted at choice {self.nchoice}")
                if self.replay_widths is not None and self.replay_widths[self.nchoice] != len(runnable):
                    raise ReplayDiverged(f"choice {self.nchoice}: {len(runnable)} runnable, recorded {self.replay_widths[self.nchoice]}")
                i = self.replay[self.nchoice]
                if i >= len(runnable):
                    raise ReplayDiverged(f"choice {self.nchoice}: index {i} out of {len(runnable)}")
                chosen = runnable[i]
            else:
                thawed = [t for t in runnable if t.frozen_until <= self.ndec]
                cands = self.strategy.eligible(thawed if thawed else runnable)
                starving = [t for t in cands if t.passed >= self.fair_k]
                if starving:
                    chosen = max(starving, key=lambda t: t.passed)
                    self.count("fairness_override")
                elif len(cands) == 1:
                    chosen = cands[0]
                else:
                    chosen = self.strategy.pick(cands, me)
                i = runnable.index(chosen)
            self.decisions.append(i)
            self.widths.append(len(runnable))
            self.nchoice += 1
            for t in runnable:
                if t is not chosen:
                    t.passed += 1
        chosen.passed = 0
        return chosen

    def switch(self, me: SimThread):
        """`me` has already recorded its own new state. Choose who continues; park `me` unless chosen."""
        if self.aborting:
            raise SimAbort()
        self.lines_since_switch = 0
        self.ndec += 1
        if self.ndec - self.call_dec0 > self.call_budget:
            self._abort("livelock", f"decision budget {self.call_budget} exceeded")
            raise SimAbort()
        try:
            nxt = self._choose(me)
        except ReplayDiverged as e:
            self._abort("replay-diverged", str(e))
            raise SimAbort()
        except CallTimeExceeded as e:
            self._abort("livelock", str(e))
            raise SimAbort()
        if nxt is None:
            self._abort("deadlock", "no runnable thread and no timer")
            raise SimAbort()
        self.h.update(nxt.name.encode())
        if me.state == RUNNABLE and nxt is not me:
            self.preempts += 1
        if nxt is me:
            return
        nxt.gate.release()
        me.gate.acquire()
        if self.aborting:
            raise SimAbort()

    def _abort(self, kind: str, detail: str):
        if self.stall is None:
            self.stall = SimStall(kind, self.snapshot(), self.call_name, detail)
        self.aborting = True
        me = self.cur()
        for t in self.threads:
            if t is not me:
                t.gate.release()

    # --- primitives used by the seams ----------------------------------------------------------------------------
    def yield_(self, why: str = ""):
        me = self.cur()
        if me is None or not self.active:
            return
        me.state = RUNNABLE
        self.switch(me)

    def block(self, on: Any, timeout: Optional[float] = None) -> bool:
        """Block the current thread on `on`. Returns False if woken by the timeout."""
        me = self.cur()
        me.state = BLOCKED
        me.waiting_on = on
        me.timed_out = False
        if timeout is not None:
            self.tseq += 1
            me.wake_at = (self.now + max(0.0, timeout), self.tseq)
            heapq.heappush(self.timers, (me.wake_at[0], self.tseq, me, self.tseq))
        self.switch(me)
        timed_out, me.timed_out = me.timed_out, False
        me.waiting_on = None
        me.wake_at = None
        return not timed_out

    def wake(self, t: SimThread, on: Any = None):
        if t.state == BLOCKED:
            t.state = RUNNABLE
            t.wake_at = None  # cancels a pending timeout
            t.timed_out = False

    def sleep(self, d: float):
        me = self.cur()
        if me is None or not self.active:
            return
        if d <= 0:
            return self.yield_("sleep0")
        me.state = SLEEPING
        self.tseq += 1
        me.wake_at = (self.now + d, self.tseq)
        heapq.heappush(self.timers, (me.wake_at[0], self.tseq, me, self.tseq))
        self.switch(me)

    def drain(self, max_decisions: int = 20000) -> bool:
        """User thread: let every other thread run until the system is quiescent (bounded: a graph that was not stopped keeps
        stepping in virtual time for ever). Returns True when quiescence was reached."""
        me = self.cur()
        start = self.ndec
        while True:
            others = [t for t in self.threads if t is not me and t.state in (RUNNABLE, SLEEPING)]
            if not others:
                return True
            if self.ndec - start > max_decisions:
                self.count("drain_gave_up")
                self.drain_deadline = None
                return False
            self.drain_deadline = start + max_decisions
            me.state = DRAINING
            self.switch(me)

    def time(self) -> float:
        if self.cur() is not None and self.active:
            self.now += 1e-6
        return self.now

    def line_hook(self, lineno: int = -1, fname: str = ""):
        if self.pause_rate > 0.0 and self.call_name is not None and self.active and not self.aborting:
            me = self.cur()
            # (pauses are concentrated where the user thread walks over the nodes one by one: the start / stop / reset transitions)
            if me is not None and me.is_user and self.pause_rng.random() < (min(0.25, 12 * self.pause_rate) if fname in PAUSE_FOCUS else self.pause_rate):
                # the user thread is descheduled by the OS for a while in the middle of a lifecycle call (virtual time passes)
                self.count("user_thread_pause")
                self.sleep(self.pause_rng.choice(PAUSES))
                return
        rate = self.hot_rate if (self.hot_rate > 0.0 and lineno in self.hot_lines) else self.line_rate
        if rate > 0.0 and self.active and not self.aborting and self.line_rng.random() < rate:
            me = self.cur()
            if me is not None:
                if lineno in self.hot_lines:
                    self.count("hot_line_preempt")
                    if self.freeze_p > 0.0 and self.line_rng.random() < self.freeze_p:
                        # the pre-empted thread stays descheduled for a while (a real OS pause inside a check-then-act window)
                        me.frozen_until = self.ndec + self.line_rng.randrange(20, 400)
                        self.count("hot_freeze")
                else:
                    self.count("line_preempt")
                me.state = RUNNABLE
                self.switch(me)


def _describe(o) -> str:
    if o is None:
        return ""
    d = getattr(o, "describe", None)
    return d() if d else type(o).__name__


K = Kernel()

_REX_ASYNC_SUFFIX = "rex/asynchronous.py"
# Shared, unsynchronised fields of the threaded runtime (the `state` anchors of properties C02/C05): lines that read or write them are
# where check-then-act windows open, so pre-emption is concentrated there ("hot lines"). Computed from the current source at run time.
_HOT_PATTERNS = ("_must_reset", "._state", "_q_act", "_q_obs", ".action", ".observation", "_initial_step", "_f_act", "_f_obs", "_step_state", "_eps", "_tick")
_hot_cache: dict = {}


def hot_lines() -> set:
    import rex.asynchronous as ra

    path = ra.__file__
    if path not in _hot_cache:
        hs = set()
        try:
            for i, line in enumerate(open(path).read().splitlines(), start=1):
                code = line.split("#", 1)[0]
                if any(p in code for p in _HOT_PATTERNS):
                    hs.add(i)
        except OSError:
            pass
        _hot_cache[path] = hs
    return _hot_cache[path]


CALL_TIME_BUDGET = 600.0  # virtual seconds one lifecycle call may take while every thread only waits on a sleep (rates are several Hz)
PAUSES = (0.002, 0.05, 0.05, 0.3, 1.0)  # durations (virtual s) of an OS pause of the user thread inside a lifecycle call
PAUSE_FOCUS = frozenset(("start", "_start", "stop", "_stop", "_set_ts_start"))
SPIN_LIMIT = 3_000_000  # traced rex lines executed by one thread without reaching a decision point


def _local_tracer(frame, event, arg):
    if event == "line":
        K.lines_since_switch += 1
        if K.lines_since_switch > SPIN_LIMIT and K.active and not K.aborting:
            # a task spins inside rex without ever reaching a synchronisation point: deterministic (line counts are), so it is a verdict
            K._abort("livelock", f"a thread executed {SPIN_LIMIT} lines of rex/asynchronous.py without reaching a synchronisation point (line {frame.f_lineno})")
            raise SimAbort()
        K.line_hook(frame.f_lineno, frame.f_code.co_name)
    return _local_tracer


def _global_tracer(frame, event, arg):
    if frame.f_code.co_filename.endswith(_REX_ASYNC_SUFFIX):
        return _local_tracer
    return None


# ------------------------------------------------------------------------------------------------------------------
# Simulated primitives (the classes rex.asynchronous sees)
# ------------------------------------------------------------------------------------------------------------------

_fut_ids = 0


class SimFuture:
    def __init__(self):
        self._state = "pending"
        self._result = None
        self._exc = None
        self._waiters: List[SimThread] = []
        self._cbs: List[Callable] = []
        self.label = ""

    def describe(self):
        return f"Future[{self.label}:{self._state}]"

    def done(self):
        return self._state != "pending"

    def cancelled(self):
        return self._state == "cancelled"

    def running(self):
        return False

    def _finish(self):
        for w in self._waiters:
            K.wake(w, self)
        self._waiters = []
        cbs, self._cbs = self._cbs, []
        for cb in cbs:
            try:
                cb(self)
            except SimAbort:
                raise
            except Exception as e:  # concurrent.futures logs and swallows callback exceptions
                K.callback_errors.append((repr(cb), repr(e)))

    def set_result(self, r):
        if self._state != "pending":
            from concurrent.futures import InvalidStateError

            raise InvalidStateError(f"{self._state}: {self!r}")
        self._state = "finished"
        self._result = r
        self._finish()
        K.yield_("set_result")

    def set_exception(self, e):
        if self._state != "pending":
            from concurrent.futures import InvalidStateError

            raise InvalidStateError(f"{self._state}: {self!r}")
        self._state = "finished"
        self._exc = e
        self._finish()
        K.yield_("set_exception")

    def cancel(self):
        K.yield_("cancel")
        if self._state == "cancelled":
            return True
        if self._state != "pending":
            return False
        self._state = "cancelled"
        self._finish()
        K.yield_("cancelled")
        return True

    def add_done_callback(self, cb):
        if self.done():
            cb(self)
        else:
            self._cbs.append(cb)

    def _wait(self, timeout):
        me = K.cur()
        if me is None or not K.active:
            if self._state == "pending":
                raise HarnessError("non-sim thread waits for a SimFuture")
            return
        deadline = None if timeout is None else K.now + timeout
        while self._state == "pending":
            self._waiters.append(me)
            ok = K.block(self, None if deadline is None else deadline - K.now)
            if not ok and self._state == "pending":
                if me in self._waiters:
                    self._waiters.remove(me)
                raise FutTimeoutError()

    def exception(self, timeout=None):
        self._wait(timeout)
        if self._state == "cancelled":
            raise CancelledError()
        return self._exc

    def result(self, timeout=None):
        K.yield_("result")
        self._wait(timeout)
        if self._state == "cancelled":
            raise CancelledError()
        if self._exc is not None:
            raise self._exc
        return self._result


class SimRLock:
    def __init__(self):
        self.owner: Optional[SimThread] = None
        self.count = 0
        self.waiters: List[SimThread] = []

    def describe(self):
        return f"RLock[owner={self.owner.name if self.owner else None}]"

    def acquire(self, blocking=True, timeout=-1):
        me = K.cur()
        if me is None or not K.active:
            self.count += 1
            return True
        if K.aborting:
            raise SimAbort()
        if self.owner is not me:
            K.yield_("acquire")
        while self.owner is not None and self.owner is not me:
            if not blocking:
                return False
            self.waiters.append(me)
            K.block(self)
        self.owner = me
        self.count += 1
        return True

    def release(self):
        me = K.cur()
        if K.aborting or me is None or not K.active:
            return
        self.count -= 1
        if self.count == 0:
            self.owner = None
            for w in self.waiters:
                K.wake(w)
            self.waiters = []
            K.yield_("release")

    def __enter__(self):
        self.acquire()
        return self

    def __exit__(self, *a):
        self.release()
        return False


class SimExecutor:
    """Stand-in for ThreadPoolExecutor(max_workers=1): one real daemon thread, FIFO of tasks."""

    def __init__(self, max_workers=1, thread_name_prefix=""):
        if max_workers != 1:
            raise HarnessError("rex is expected to use single-worker executors")
        if not K.active:
            raise HarnessError("executor created outside a simulated run")
        self.name = thread_name_prefix
        self.q: deque = deque()
        self.t = SimThread(self.name, len(K.threads))
        self.t.state = IDLE
        self.t.executor = self
        K.threads.append(self.t)
        K.executors.append(self)
        K.task_seq[self.name] = []
        self.real = threading.Thread(target=self._main, name="sim:" + self.name, daemon=True)
        self.t.real = self.real
        self.real.start()

    def _main(self):
        K.by_ident[threading.get_ident()] = self.t
        self.t.gate.acquire()  # wait until first chosen
        if K.line_rate > 0 or K.hot_rate > 0 or K.spin_guard or K.pause_rate > 0:
            sys.settrace(_global_tracer)
        try:
            while True:
                if K.aborting or K.terminating:
                    return
                if not self.q:
                    self.t.state = IDLE
                    K.switch(self.t)
                    continue
                # injected stall at the task boundary (adversarial pause)
                if K.stall_p > 0.0 and K.fault_rng.random() < K.stall_p:
                    K.count("stall")
                    K.sleep(K.fault_rng.random() * K.stall_max)
                f, fn, a, kw = self.q.popleft()
                K.ev("task", self.name, fn.__name__)
                K.task_seq[self.name].append(fn.__name__)
                try:
                    r = fn(*a, **kw)
                except SimAbort:
                    raise
                except BaseException as e:  # noqa
                    import traceback

                    K.task_errors.append((self.name, fn.__name__, "".join(traceback.format_exception(None, e, e.__traceback__))[-1500:]))
                    f.set_exception(e)
                else:
                    f.set_result(r)
        except SimAbort:
            return
        finally:
            sys.settrace(None)
            self.t.state = DONE

    def submit(self, fn, *a, **kw):
        f = SimFuture()
        f.label = f"{self.name}.{getattr(fn, '__name__', '?')}"
        self.q.append((f, fn, a, kw))
        if self.t.state == IDLE:
            self.t.state = RUNNABLE
        K.yield_("submit")
        return f

    def shutdown(self, wait=True, cancel_futures=False):
        pass


class SimTime:
    """Replacement for the `time` module as seen by rex.asynchronous."""

    @staticmethod
    def time():
        return K.time()

    @staticmethod
    def monotonic():
        return K.time()

    @staticmethod
    def perf_counter():
        return K.time()

    @staticmethod
    def sleep(d):
        K.sleep(d)
