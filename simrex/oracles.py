"""History oracles over a recorded asynchronous episode (DESIGN section 4).

Written to the property statements, from observable record fields only (ts_start/ts_end/delay of steps, seq_out/seq_in/
ts_sent/ts_recv of messages, recorded input windows) plus the node configuration. rex's internal bookkeeping fields
(phase_*, ts_max, ts_scheduled ...) are never read.
"""
from __future__ import annotations

from typing import Dict, List, Tuple

import numpy as onp

EPS9 = 1e-9
EPS6 = 1.5e-6


class Verdict:
    def __init__(self):
        self.violations: List[dict] = []
        self.ambiguous = 0
        self.probes: Dict[str, int] = {}
        self.judged = 0  # number of individual law instances evaluated

    def v(self, clause: str, **detail):
        if len(self.violations) < 50:
            self.violations.append(dict(clause=clause, **{k: _py(x) for k, x in detail.items()}))

    def p(self, name: str, n: int = 1):
        if n:
            self.probes[name] = self.probes.get(name, 0) + int(n)


def _py(x):
    if isinstance(x, (onp.floating, onp.integer)):
        return x.item()
    if isinstance(x, onp.ndarray):
        return x.tolist()
    if isinstance(x, (list, tuple)):
        return [_py(y) for y in x]
    return x


def _f32(vals):
    return onp.asarray(vals, dtype=onp.float32).astype(float)


def record_arrays(rec, nodes):
    """Plain numpy view of an EpisodeRecord."""
    B, E, D, SEQ = {}, {}, {}, {}
    for n, r in rec.nodes.items():
        s = r.steps
        B[n] = onp.asarray(s.ts_start, dtype=float).reshape(-1)
        E[n] = onp.asarray(s.ts_end, dtype=float).reshape(-1)
        D[n] = onp.asarray(s.delay, dtype=float).reshape(-1)
        SEQ[n] = onp.asarray(s.seq).reshape(-1)
    cons = {}
    for v, r in rec.nodes.items():
        for iname, c in nodes[v].inputs.items():
            u = c.output_node.name
            m = r.inputs[u].messages
            cons[(u, v)] = dict(so=onp.asarray(m.seq_out).reshape(-1), si=onp.asarray(m.seq_in).reshape(-1),
                                sent=onp.asarray(m.ts_sent, dtype=float).reshape(-1), recv=onp.asarray(m.ts_recv, dtype=float).reshape(-1),
                                conn=c, iname=iname)
    return B, E, D, SEQ, cons


def check_c03(rec, nodes, spec, wall: bool = False, strict_buffer_skip: bool = True) -> Verdict:
    """4.1 sequence/overlap, 4.2 channel, 4.3 consumption law, 4.4 window contents."""
    import rex.constants as const

    V = Verdict()
    B, E, D, SEQ, cons = record_arrays(rec, nodes)
    try:
        mph = model_phases(spec, nodes) if spec is not None else {}
    except RecursionError:
        mph = {}
    for n in B:
        K_ = len(SEQ[n])
        V.judged += K_
        if not onp.array_equal(SEQ[n], onp.arange(K_)):
            V.v("4.1-seq-gapfree", node=n, seq=SEQ[n][:12])
        if K_ > 1 and onp.any(B[n][1:] < E[n][:-1] - EPS9):
            k = int(onp.nonzero(B[n][1:] < E[n][:-1] - EPS9)[0][0]) + 1
            V.v("4.1-overlap", node=n, k=k, start=B[n][k], prev_end=E[n][k - 1])
        if onp.any(D[n] < 0) or onp.any(E[n] < B[n] - EPS9):
            V.v("4.1-negative-duration", node=n)
    for (u, v), m in cons.items():
        c = m["conn"]
        so, si, sent, recv = m["so"], m["si"], m["sent"], m["recv"]
        bv = B[v]
        V.judged += len(so)
        if not onp.array_equal(so, onp.arange(len(so))):
            V.v("4.2-delivery-exactly-once-in-order", src=u, dst=v, seq_out=so[:16])
            continue
        if len(si) and onp.any(onp.diff(si) < 0):
            V.v("4.2-seq_in-monotone", src=u, dst=v, seq_in=si[:16])
        if onp.any(recv < sent - EPS6):
            i = int(onp.nonzero(recv < sent - EPS6)[0][0])
            V.v("4.2-recv-before-sent", src=u, dst=v, i=i, sent=sent[i], recv=recv[i])
        if len(recv) > 1 and onp.any(onp.diff(recv) < -EPS9):
            V.v("4.2-fifo", src=u, dst=v)
        if len(so) and so[-1] < len(E[u]):
            if onp.any(onp.abs(sent - E[u][so]) > EPS9):
                i = int(onp.nonzero(onp.abs(sent - E[u][so]) > EPS9)[0][0])
                V.v("4.2-sent-is-producer-end", src=u, dst=v, i=i, sent=sent[i], end=E[u][so][i])
        elif len(so):
            V.v("4.2-message-from-unrecorded-step", src=u, dst=v, last=int(so[-1]), steps=len(E[u]))
        if len(si) and (si.max() >= len(bv) or si.min() < 0):
            V.v("4.2-seq_in-range", src=u, dst=v)
            continue
        if len(recv) > 1:
            V.p("fifo_clamp", int(onp.sum((onp.diff(recv) == 0) & (onp.diff(sent) > 0))))
        # --- 4.3 consumption law
        rate_u, rate_v = nodes[u].rate, nodes[v].rate
        for i in range(len(so)):
            k = int(si[i])
            if bv[k] < recv[i] - (EPS9 if not wall else 0.0):
                V.v("4.3-consumed-by-step-that-started-before-arrival", src=u, dst=v, i=i, k=k, start=bv[k], recv=recv[i])
                continue
            if c.blocking:
                if wall:
                    continue
                ti = round(i / rate_u + round(float(mph.get(u, nodes[u].phase)), 6), 6)
                ph_v = round(float(mph.get(v, nodes[v].phase)), 6)

                def thigh(N):
                    return round(N / rate_v + ph_v, 6)

                N = 0
                while not ((ti < thigh(N)) if c.skip else (ti <= thigh(N))):
                    N += 1
                    if N > 100000:
                        break
                near = min(abs(ti - thigh(N)), abs(ti - thigh(N - 1)) if N > 0 else 1.0)
                if k != N:
                    if near < 2.5e-6 and abs(k - N) == 1:
                        V.ambiguous += 1
                    else:
                        V.v("4.3-blocking-phase-determined-step", src=u, dst=v, i=i, seq_in=k, expected=N)
                if abs(bv[k] - recv[i]) < EPS9:
                    V.p("blocking_wait_binding")
            elif c.jitter == const.Jitter.LATEST:
                if c.skip and bv[k] == recv[i]:
                    V.v("4.3-latest-skip-needs-strictly-after", src=u, dst=v, i=i, k=k, start=bv[k], recv=recv[i])
                if k > 0:
                    prev_ok = (bv[k - 1] > recv[i]) if c.skip else (bv[k - 1] >= recv[i])
                    if prev_ok:
                        V.v("4.3-latest-not-first-step-after-arrival", src=u, dst=v, i=i, k=k, prev_start=bv[k - 1], recv=recv[i])
                if bv[k] == recv[i] or (k > 0 and bv[k - 1] == recv[i]):
                    V.p("tie")
                    if c.skip:
                        V.p("skip_tie")
            else:  # BUFFER
                texp = i / rate_u + float(mph.get((u, v), c.phase))  # expected arrival from the configuration, not from rex's own phase

                def elig(kk):
                    arr = (bv[kk] > recv[i]) if (c.skip and strict_buffer_skip) else (bv[kk] >= recv[i])
                    return arr and bv[kk] >= texp

                if wall:
                    continue
                # a step start within 1e-6 of the expected arrival is judged only when the configured expected arrival and the runtime's own
                # expression (seq / rate + connection phase, same operation order) agree bit for bit: then the comparison the runtime made is known
                exact = texp == i / rate_u + float(c.phase)
                if exact:
                    V.p("buffer_expected_arrival_exact")
                if not elig(k):
                    if abs(bv[k] - texp) < EPS6 and not exact:
                        V.ambiguous += 1
                    elif c.skip and bv[k] == recv[i]:
                        V.v("4.3-buffer-skip-needs-strictly-after", src=u, dst=v, i=i, k=k, start=bv[k], recv=recv[i])
                    else:
                        V.v("4.3-buffer-before-expected-arrival", src=u, dst=v, i=i, k=k, start=bv[k], recv=recv[i], expected=texp)
                lo = int(si[i - 1]) if i > 0 else 0
                if k > lo and elig(k - 1):
                    if abs(bv[k - 1] - texp) < EPS6 and not exact:
                        V.ambiguous += 1
                    else:
                        V.v("4.3-buffer-not-first-eligible-step", src=u, dst=v, i=i, k=k, prev_start=bv[k - 1], recv=recv[i], expected=texp)
                if k > 0 and bv[k - 1] >= recv[i] and bv[k - 1] < texp:
                    V.p("buffer_holdback")
                if bv[k] == recv[i]:
                    V.p("tie")
                    if c.skip:
                        V.p("skip_tie")
                if bv[k] == texp or (k > 0 and bv[k - 1] == texp):
                    V.p("buffer_expected_tie")
        # --- 4.4 window contents
        steps = rec.nodes[v].steps
        if steps.inputs is not None:
            w = steps.inputs[m["iname"]]
            wseq = onp.asarray(w.seq)
            wsent = onp.asarray(w.ts_sent, dtype=float)
            wrecv = onp.asarray(w.ts_recv, dtype=float)
            wdseq = onp.asarray(w.data.seq)
            W = c.window
            ptr = 0
            consumed: List[int] = []
            for k in range(len(bv)):
                while ptr < len(si) and si[ptr] <= k:
                    consumed.append(ptr)
                    ptr += 1
                last = consumed[-W:]
                exp = [-1] * (W - len(last)) + [int(so[j]) for j in last]
                got = [int(x) if x >= 0 else -1 for x in wseq[k]]
                V.judged += 1
                if got != exp:
                    V.v("4.4-window-most-recent-consumed-oldest-first", src=u, dst=v, k=k, got=got, expected=exp)
                    break
                off = W - len(last)
                for q, j in enumerate(last):
                    if abs(wsent[k][off + q] - float(onp.float32(sent[j]))) > 0 or abs(wrecv[k][off + q] - float(onp.float32(recv[j]))) > 0:
                        V.v("4.4-window-timestamps", src=u, dst=v, k=k, j=int(j), got=(wsent[k][off + q], wrecv[k][off + q]), expected=(sent[j], recv[j]))
                        break
                    if int(wdseq[k][off + q]) != int(so[j]):
                        V.v("4.4-window-payload", src=u, dst=v, k=k, got=int(wdseq[k][off + q]), expected=int(so[j]))
                        break
                if len(last) < W:
                    V.p("window_underfull")
    # probe invariants (payload attribution, cross-episode leak)
    for n, r in rec.nodes.items():
        st = r.steps.state
        if st is not None:
            bad = onp.asarray(st.bad)
            if len(bad) and bad.max() > 0:
                V.v("probe-invariant", node=n, first_k=int(onp.nonzero(bad > 0)[0][0]))
    return V


def model_phases(spec, nodes) -> dict:
    """Phases from the *configuration* (spec), by an independent longest-path DP over non-skipped connections. Expected delays that the spec
    leaves to rex's default (99th percentile of a continuous distribution) are taken from the node objects; everything else from the spec."""
    names = [nd["name"] for nd in spec["nodes"]]

    def ndelay(i):
        nd = spec["nodes"][i]
        if nd.get("delay") is not None:
            return float(nd["delay"])
        if nd["dist"][0] == "det":
            return float(onp.float32(nd["dist"][1]))
        return float(nodes[names[i]].delay)

    def cdelay(c):
        if c.get("delay") is not None:
            return float(c["delay"])
        if c["dist"][0] == "det":
            return float(onp.float32(c["dist"][1]))
        return float(nodes[names[c["dst"]]].inputs[c.get("name") or names[c["src"]]].delay)

    memo = {}

    def ph(i, depth=0):
        if i in memo:
            return memo[i]
        if depth > len(names) + 2:
            raise RecursionError
        best = 0.0
        for c in spec["conns"]:
            if c["dst"] == i and not c["skip"]:
                best = max(best, (ph(c["src"], depth + 1) + ndelay(c["src"])) + cdelay(c))
        memo[i] = best
        return best

    out = {names[i]: ph(i) for i in range(len(names))}
    for c in spec["conns"]:
        out[(names[c["src"]], names[c["dst"]])] = (ph(c["src"]) + ndelay(c["src"])) + cdelay(c)  # expected arrival phase of the connection
    return out


def check_c04(rec, nodes, spec, live_nodes: bool = True) -> Verdict:
    """4.5 start-time law, re-evaluated independently from the record (SIMULATED clock)."""
    import rex.constants as const

    V = Verdict()
    B, E, D, SEQ, cons = record_arrays(rec, nodes)
    byname = {nd["name"]: nd for nd in spec["nodes"]}
    try:
        mph = model_phases(spec, nodes)
    except RecursionError:
        mph = {}
    for v, p in mph.items():
        if isinstance(v, tuple) or not live_nodes:  # live_nodes=False: the node objects were reconfigured after this episode
            continue
        if abs(float(nodes[v].phase) - p) > 1e-9:
            V.v("4.5-phase-differs-from-configured-longest-delay-path", node=v, phase=float(nodes[v].phase), expected=p)
    for v in B:
        node = nodes[v]
        bv, ev = B[v], E[v]
        K_ = len(bv)
        only_blocking = bool(node.advance) and all(c.blocking for c in node.inputs.values())
        P = 0.0
        phase = float(mph.get(v, node.phase))
        prev_unbound = False
        blocking_in = [cons[(c.output_node.name, v)] for c in node.inputs.values() if c.blocking]
        for k in range(K_):
            V.judged += 1
            s_k = round(k / node.rate + phase, 6)
            x = 0.0
            for m in blocking_in:
                sel = m["recv"][m["si"] == k]
                if len(sel):
                    x = max(x, float(sel.max()))
            e_prev = float(ev[k - 1]) if k > 0 else 0.0
            exp = max(x, e_prev) if only_blocking else max(x, e_prev, s_k + P)
            if abs(bv[k] - exp) > 5e-9:
                V.v("4.5-start-is-latest-of-schedule-prev-end-blocking-arrival", node=v, k=k, start=bv[k], expected=exp, x=x, e_prev=e_prev, s=s_k, drift=P,
                    only_blocking=only_blocking, sched=str(node.scheduling))
                break
            if not only_blocking and bv[k] < s_k - EPS9:
                V.v("4.5-start-before-scheduled-time", node=v, k=k, start=bv[k], scheduled=s_k)
            if node.scheduling == const.Scheduling.FREQUENCY and not only_blocking and k > 0 and prev_unbound:
                if bv[k] - bv[k - 1] < 1.0 / node.rate - 2.5e-6:
                    V.v("4.5-frequency-spacing", node=v, k=k, gap=bv[k] - bv[k - 1], period=1.0 / node.rate)
            prev_unbound = x <= max(e_prev, s_k + P) + EPS9
            if x > max(e_prev, s_k + P) + EPS9:
                V.p("blocking_wait_binding")
            if node.scheduling == const.Scheduling.FREQUENCY:
                newP = max(P, e_prev - s_k)
                if newP > P + 1e-12:
                    V.p("freq_drift_accumulated")
                P = newP
            else:
                if k > 0 and max(x, e_prev) <= s_k and bv[k - 1] > round((k - 1) / node.rate + phase, 6) + EPS9:
                    V.p("phase_catch_up")
                    if abs(bv[k] - s_k) > 5e-9 and not only_blocking:
                        V.v("4.5-phase-returns-to-grid", node=v, k=k, start=bv[k], grid=s_k)
                P = 0.0
            if ev[k] - bv[k] > 1.0 / node.rate:
                V.p("overrun")
        # step duration = one sampled computation delay
        d = ev - bv
        if onp.any(onp.abs(d - D[v]) > EPS9):
            V.v("4.5-end-is-start-plus-delay", node=v)
        sup = _support(byname[v]["dist"])
        if sup is not None and K_:
            dist = onp.min(onp.abs(d[:, None] - _f32(sup)[None]), axis=1)
            if onp.any(dist > 1e-7):
                k = int(onp.nonzero(dist > 1e-7)[0][0])
                V.v("4.5-computation-delay-in-support", node=v, k=k, delay=d[k], support=sup)
    for cs in spec["conns"]:
        u, v = spec["nodes"][cs["src"]]["name"], spec["nodes"][cs["dst"]]["name"]
        if (u, v) not in cons:
            continue
        m = cons[(u, v)]
        sup = _support(cs["dist"])
        so, sent, recv = m["so"], m["sent"], m["recv"]
        V.judged += len(so)
        if sup is None:
            continue
        supf = _f32(sup)
        for i in range(len(so)):
            prev = recv[i - 1] if i > 0 else 0.0
            cands = [round(max(sent[i] + d_, prev), 6) for d_ in supf]
            if min(abs(recv[i] - c_) for c_ in cands) > EPS6:
                V.v("4.5-arrival-is-send-plus-comm-delay-fifo", src=u, dst=v, i=i, recv=recv[i], candidates=cands)
                break
    return V


def _support(d):
    if d[0] == "det":
        return [float(d[1])]
    if d[0] == "mix":
        return [float(x) for x in d[1]]
    return None


def check_isolation(rec, nodes, spec, eps_id: int) -> Verdict:
    """C05 isolation: every episode starts from sequence 0 and time 0 and sees no message of an earlier episode."""
    V = Verdict()
    B, E, D, SEQ, cons = record_arrays(rec, nodes)
    for n in B:
        V.judged += 1
        if len(SEQ[n]) and SEQ[n][0] != 0:
            V.v("iso-first-seq-0", node=n, first=int(SEQ[n][0]))
        if len(B[n]):
            if B[n][0] < -EPS9:
                V.v("iso-first-start-nonnegative", node=n, start=B[n][0])
            node = nodes[n]
            if not any(c.blocking for c in node.inputs.values()) and abs(B[n][0] - round(float(node.phase), 6)) > 5e-9:
                V.v("iso-first-start-is-phase", node=n, start=B[n][0], phase=float(node.phase))
            # time restarts: no step can start later than a bound implied by the schedule of a fresh episode
        st = rec.nodes[n].steps.state
        if st is not None and len(onp.asarray(st.n)):
            if int(onp.asarray(st.n)[0]) != 0:
                V.v("iso-state-not-reinitialised", node=n)
            if onp.asarray(st.bad).max() > 0:
                V.v("iso-probe-cross-episode-or-attribution", node=n)
    for (u, v), m in cons.items():
        V.judged += 1
        if len(m["so"]) and m["so"][0] != 0:
            V.v("iso-first-seq_out-0", src=u, dst=v, first=int(m["so"][0]))
        if len(m["si"]) and m["si"].min() < 0:
            V.v("iso-seq_in-negative", src=u, dst=v)
        steps = rec.nodes[v].steps
        if steps.inputs is not None:
            w = steps.inputs[m["iname"]]
            deps = onp.asarray(w.data.eps)
            wseq = onp.asarray(w.seq)
            real = wseq >= 0
            if onp.any(deps[real] != eps_id):
                V.v("iso-message-from-other-episode", src=u, dst=v, eps_seen=sorted(set(deps[real].tolist()))[:5], eps=eps_id)
            if onp.any(deps[~real] != -1):
                V.v("iso-default-slot-holds-message", src=u, dst=v)
    return V


# ---------------------------------------------------------------------------------------------------------------
# canonical form of an episode (C02)
# ---------------------------------------------------------------------------------------------------------------


def canon_episode(rec, nodes) -> dict:
    """Per node: list of per-step tuples; per connection: list of per-message tuples."""
    import jax

    out = {}
    for n, r in rec.nodes.items():
        s = r.steps
        K_ = len(onp.asarray(s.seq))
        cols = [onp.asarray(s.seq).tolist(), onp.asarray(s.ts_start, dtype=float).tolist(), onp.asarray(s.ts_end, dtype=float).tolist(),
                onp.asarray(s.delay, dtype=float).tolist()]
        extra = []
        for name, tree in (("rng", s.rng), ("state", s.state), ("inputs", s.inputs), ("output", s.output)):
            if tree is None:
                extra.append([None] * K_)
                continue
            leaves = [onp.asarray(l) for l in jax.tree_util.tree_leaves(tree)]
            rows = []
            for k in range(K_):
                row = []
                for l in leaves:
                    if l.shape[0] > k:
                        a = l[k]
                        row.append(a.tolist() if a.dtype != object else None)
                rows.append(_canon_neg(repr(row)) if name == "inputs" else repr(row))
            extra.append(rows)
        out["node:" + n] = list(zip(*cols, *extra))
        for iname, c in nodes[n].inputs.items():
            u = c.output_node.name
            m = r.inputs[u].messages
            out[f"conn:{u}->{n}"] = list(zip(onp.asarray(m.seq_out).reshape(-1).tolist(), onp.asarray(m.seq_in).reshape(-1).tolist(),
                                             onp.asarray(m.ts_sent, dtype=float).reshape(-1).tolist(), onp.asarray(m.ts_recv, dtype=float).reshape(-1).tolist()))
    return out


def _canon_neg(s: str) -> str:
    return s


def compare_prefix(a: dict, b: dict, skip_last_output_of: str = None) -> List[dict]:
    diffs = []
    for key in a:
        if key not in b:
            diffs.append(dict(key=key, what="missing"))
            continue
        la, lb = a[key], b[key]
        m = min(len(la), len(lb))
        for i in range(m):
            x, y = la[i], lb[i]
            if x != y:
                if skip_last_output_of and key == "node:" + skip_last_output_of and (i == len(la) - 1 or i == len(lb) - 1) and x[:-1] == y[:-1]:
                    continue  # supervisor's last, cancelled tick has no output in one of the runs
                fld = [j for j in range(len(x)) if x[j] != y[j]]
                diffs.append(dict(key=key, index=i, fields=fld, a=str(x)[:300], b=str(y)[:300]))
                break
    return diffs
