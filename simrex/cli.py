"""Command line of /verif/check."""
from __future__ import annotations

import argparse
import importlib
import json
import os
import sys

from . import campaign

RULE = ("each evaluation is one simulated run: a graph spec drawn from the supported class S (DESIGN 3.1), a user-call history, a seeded scheduling "
        "strategy and fault plan, all derived from one run seed; a run is counted in distinct_nontrivial when its (spec digest, decision-trace digest) "
        "pair is new AND it had at least one decision point with >= 2 runnable threads AND at least one fault fired (pre-emption, stall, starvation, "
        "speed change, slow user, restart, line pre-emption)")

ASSUME = ["the simrex kernel, seams and probe nodes are correct (DESIGN 2, 10)", "JAX/XLA CPU numerics are run-to-run deterministic",
          "sampling, not proof: holds for the explored specs/schedules/faults only", "graphs are drawn from the supported class S (DESIGN 3.1)"]

PROPS = {
    "C01": dict(mod="checks.c01", quick_runs=32, thorough_s=1500, opts=dict(pairs=1, max_nodes=4, max_steps=8), thorough_opts=dict(pairs=2, max_nodes=5, max_steps=12)),
    "C02": dict(mod="checks.c02", quick_runs=64, thorough_s=1500, opts=dict(variants=6), thorough_opts=dict(variants=12)),
    "C03": dict(mod="checks.c03", quick_runs=96, thorough_s=1500, opts=dict(episodes=4, wall_p=0.12), thorough_opts=dict(episodes=6, wall_p=0.15)),
    "C04": dict(mod="checks.c04", quick_runs=96, thorough_s=1500, opts=dict(episodes=3), thorough_opts=dict(episodes=5)),
    "C05": dict(mod="checks.c05", quick_runs=112, thorough_s=1500, opts=dict(wall_p=0.25, pause_p_wall=0.8), thorough_opts=dict(wall_p=0.25)),
    "C06": dict(mod="checks.c06", quick_runs=48, thorough_s=1500, opts=dict(max_nodes=4, max_steps=8, compiled_p=0.4), thorough_opts=dict(max_nodes=5, max_steps=12, compiled_p=0.6)),
    "C07": dict(mod="checks.c07", quick_runs=64, thorough_s=1500, opts=dict(max_nodes=4, max_steps=8, pairs=2, generated_p=0.3), thorough_opts=dict(max_nodes=5, max_steps=12, pairs=6, generated_p=0.3)),
    "C08": dict(mod="checks.c08", quick_runs=32, thorough_s=1500, opts=dict(max_nodes=4, max_steps=14, variants=3), thorough_opts=dict(max_nodes=5, max_steps=20, variants=6)),
    "C10": dict(mod="checks.c10", quick_runs=24, thorough_s=1500, opts=dict(max_nodes=3, max_steps=9), thorough_opts=dict(max_nodes=4, max_steps=12)),
    "C13": dict(mod="checks.c13", quick_runs=48, thorough_s=1500, opts=dict(max_nodes=4, variants=4, compiled_p=0.5), thorough_opts=dict(max_nodes=5, variants=8, compiled_p=0.6)),
    "C16": dict(mod="checks.c16", quick_runs=96, thorough_s=1200, opts=dict(max_nodes=4), thorough_opts=dict(max_nodes=5)),
}


def main(argv) -> int:
    ap = argparse.ArgumentParser(prog="check")
    ap.add_argument("prop")
    ap.add_argument("sub", nargs="?")
    ap.add_argument("--tier", default=os.environ.get("VERIF_TIER", "quick"))
    ap.add_argument("--replay")
    ap.add_argument("--workers", type=int, default=int(os.environ.get("VERIF_WORKERS", "16")))
    ap.add_argument("--runs", type=int)
    ap.add_argument("--budget", type=float, default=float(os.environ["VERIF_BUDGET_S"]) if os.environ.get("VERIF_BUDGET_S") else None)
    ap.add_argument("--seed", type=int, default=int(os.environ.get("VERIF_SEED", "20260927")))
    ap.add_argument("--no-minimise", action="store_true")
    ap.add_argument("--opt", action="append", default=[], help="override a tier option: key=value (python literal)")
    a = ap.parse_args(argv)
    from . import seams

    seams.configure_env()
    seams._quiet_imports()
    if a.prop == "selftest":
        from . import selftest

        return selftest.main(a)
    pid = a.prop.upper()
    if pid not in PROPS:
        print(f"unknown property {pid}; known: {sorted(PROPS)}")
        return 2
    cfg = PROPS[pid]
    if a.replay:
        return replay(pid, cfg, a.replay)
    opts = dict(cfg.get("opts") or {})
    opts.update(cfg.get(f"{a.tier}_opts") or {})
    import ast

    for kv in a.opt:
        k, v = kv.split("=", 1)
        opts[k] = ast.literal_eval(v)
    n_runs = a.runs if a.runs is not None else cfg["quick_runs"]
    budget = None
    if a.tier == "thorough" and a.runs is None:
        budget = a.budget if a.budget is not None else cfg["thorough_s"]
    minimise = None
    if not a.no_minimise:
        from . import minimise as mini

        minimise = lambda r, o: mini.minimise(cfg["mod"], r, o, budget_s=300 if a.tier == "quick" else 600)  # noqa: E731
    return campaign.campaign(pid, cfg["mod"], a.tier, a.seed, n_runs, a.workers, budget, opts, cfg.get("rule", RULE), cfg.get("assume", ASSUME),
                             minimise=minimise)


def replay(pid: str, cfg: dict, path: str) -> int:
    from . import seams

    seams.configure_env()
    seams.install()
    body = json.load(open(path))
    mod = importlib.import_module(cfg["mod"])
    rep = None
    if body.get("decisions") is not None:
        rep = dict(decisions=body["decisions"], widths=body.get("widths"))
    res = mod.run_plan(body["plan"], replay=rep)
    exp = body.get("expect") or {}
    if res.get("status") == "violation":
        v0 = res["violations"][0]
        same = v0.get("clause") == exp.get("clause")
        dig_same = res.get("event_digest") == exp.get("event_digest") if exp.get("event_digest") else None
        print(f"VIOLATION property={pid} replay={path} clause={v0.get('clause')} same_clause={same} same_event_digest={dig_same}")
        print(json.dumps(v0, indent=1, default=str)[:3000])
        return 1
    print(f"[{pid}] replay of {path}: status={res.get('status')} {str(res.get('detail'))[:500]} (expected clause {exp.get('clause')})")
    return 0 if res.get("status") == "ok" else 2
