"""Minimisation of a failing run plan (delta debugging over episodes, history length, faults, strategies, spec)."""
from __future__ import annotations

import copy
import importlib
import multiprocessing as mp
import time
from concurrent.futures import ProcessPoolExecutor
from typing import Optional

from . import campaign, spec as sp


def _eval(mod_name: str, plan: dict) -> dict:
    from . import seams

    seams.configure_env()
    seams.install()
    mod = importlib.import_module(mod_name)
    try:
        res = mod.run_plan(plan)
    except BaseException as e:  # noqa
        return dict(status="harness_error", detail=repr(e))
    return res


def _candidates(plan: dict):
    """Yields (description, candidate plan) from coarse to fine."""
    eps = plan.get("episodes") or []
    # 1. drop episodes
    for i in reversed(range(len(eps))):
        if len(eps) > 1:
            p = copy.deepcopy(plan)
            del p["episodes"][i]
            if p["episodes"][-1].get("ending") == "none":
                p["episodes"][-1]["ending"] = "stop"
            yield f"drop episode {i}", p
    # 2. shorten histories
    for i, e in enumerate(eps):
        n = e.get("nsteps", 0)
        for m in sorted({n // 2, n - 1, 1}):
            if 0 < m < n:
                p = copy.deepcopy(plan)
                p["episodes"][i]["nsteps"] = m
                if p["episodes"][i].get("override"):
                    p["episodes"][i]["override"] = p["episodes"][i]["override"][:m]
                p["episodes"][i]["until_active"] = False
                yield f"episode {i}: {n}->{m} steps", p
    # 3. faults off
    if plan.get("line_rate"):
        p = copy.deepcopy(plan)
        p["line_rate"] = 0.0
        yield "line pre-emption off", p
    if plan.get("pause_rate"):
        p = copy.deepcopy(plan)
        p["pause_rate"] = 0.0
        yield "user-thread pauses off", p
    for i, e in enumerate(eps):
        if e.get("mid_record") is not None:
            p = copy.deepcopy(plan)
            del p["episodes"][i]["mid_record"]
            yield f"episode {i}: no mid-episode get_record", p
    for i, e in enumerate(eps):
        if e.get("stall_p") or e.get("slow_user") or e.get("rtf"):
            p = copy.deepcopy(plan)
            p["episodes"][i].update(stall_p=0.0, stall_max=0.0, slow_user=None)
            if not plan["spec"].get("open_loop"):
                p["episodes"][i]["rtf"] = 0
            yield f"episode {i}: no stalls / fast as possible", p
        if e.get("strategy", {}).get("name") != "rr":
            p = copy.deepcopy(plan)
            p["episodes"][i]["strategy"] = {"name": "rr"}
            yield f"episode {i}: round-robin schedule", p
    # 4. spec: drop connections / simplify distributions (only when the plan has no derived model of the spec)
    if "model" in plan or "conn" in plan or "variants" in plan and False:
        return
    spec = plan["spec"]
    for ci in reversed(range(len(spec["conns"]))):
        p = copy.deepcopy(plan)
        del p["spec"]["conns"][ci]
        p["spec"]["open_loop"] = len(sp.reachable_from_sup(p["spec"])) < len(p["spec"]["nodes"])
        if sp.in_S(p["spec"]) is None and not p["spec"]["open_loop"]:
            yield f"drop connection {ci}", p
    for kind, lst in (("node", spec["nodes"]), ("conn", spec["conns"])):
        for i, x in enumerate(lst):
            d = x["dist"]
            if d[0] in ("mix", "gmm", "norm"):
                p = copy.deepcopy(plan)
                tgt = p["spec"]["nodes"][i] if kind == "node" else p["spec"]["conns"][i]
                tgt["dist"] = ["det", float(d[1][0]) if d[0] in ("mix", "gmm") else float(d[1])]
                if sp.in_S(p["spec"]) is None:
                    yield f"{kind} {i}: deterministic delay", p
    for i, x in enumerate(spec["conns"]):
        if x["window"] > 1:
            p = copy.deepcopy(plan)
            p["spec"]["conns"][i]["window"] = 1
            yield f"conn {i}: window 1", p


def minimise(mod_name: str, r: dict, opts: dict, budget_s: float = 480.0, max_cands: int = 80) -> Optional[dict]:
    """Greedy delta debugging; a candidate is accepted when the same clause of the same property fails again (fresh process)."""
    target = (r.get("violations") or [{}])[0].get("clause")
    if target is None or r.get("plan") is None:
        return None
    t0 = time.time()
    best = r
    plan = r["plan"]
    tried = 0
    ctx = mp.get_context("spawn")
    log = []
    with ProcessPoolExecutor(max_workers=1, mp_context=ctx, initializer=campaign._child_init, max_tasks_per_child=30) as ex:
        progress = True
        while progress and tried < max_cands and time.time() - t0 < budget_s:
            progress = False
            for desc, cand in _candidates(plan):
                if tried >= max_cands or time.time() - t0 > budget_s:
                    break
                tried += 1
                try:
                    res = ex.submit(_eval, mod_name, cand).result(timeout=600)
                except Exception:
                    break
                if res.get("status") == "violation" and (res["violations"][0].get("clause") == target):
                    plan = cand
                    res["seed"] = r.get("seed")
                    best = res
                    log.append(desc)
                    progress = True
                    break
    if best is r:
        return None
    best["minimisation"] = dict(accepted=log, candidates_tried=tried, seconds=round(time.time() - t0, 1))
    print(f"[minimise] {len(log)} reductions accepted out of {tried} candidates: {log}", flush=True)
    return best
