"""Self-tests of the machinery: determinism (same seed => same execution, everywhere) and sensitivity (mutants are caught)."""
from __future__ import annotations

import glob
import importlib
import json
import multiprocessing as mp
import os
import subprocess
import sys
import time
from concurrent.futures import ProcessPoolExecutor, ThreadPoolExecutor

from . import campaign

VERIF = campaign.VERIF


def _one(mod_name: str, seed: int, tier: str, opts: dict) -> dict:
    from . import seams

    seams.configure_env()
    seams.install()
    mod = importlib.import_module(mod_name)
    plan = mod.make_plan(seed, tier, opts)
    res = mod.run_plan(plan)
    return dict(seed=seed, status=res.get("status"), event_digest=res.get("event_digest"), interleavings=res.get("interleavings"), task_orders=res.get("task_orders"),
                clause=(res.get("violations") or [{}])[0].get("clause"), plan_digest=campaign.digest(plan))


def _fresh(mod_name, seed, tier, opts, hashseed):
    env = dict(os.environ, PYTHONHASHSEED=str(hashseed), SIMREX_PIN="0")
    code = ("import sys, json; sys.path.insert(0, %r); from simrex import selftest; "
            "print('RESULT ' + json.dumps(selftest._one(%r, %d, %r, %r)))" % (VERIF, mod_name, seed, tier, opts))
    p = subprocess.run(["/venv/bin/python", "-c", code], capture_output=True, text=True, env=env, timeout=1200)
    for line in p.stdout.splitlines():
        if line.startswith("RESULT "):
            return json.loads(line[7:])
    return dict(seed=seed, status="crash", detail=(p.stderr or "")[-500:])


def determinism(a) -> int:
    from .cli import PROPS

    n = a.runs or 8
    t0 = time.time()
    failures = []
    total = 0
    for pid, tier in (("C05", "thorough"), ("C02", "quick"), ("C03", "thorough")):
        cfg = PROPS[pid]
        opts = dict(cfg.get("opts") or {})
        opts.update(cfg.get(f"{tier}_opts") or {})
        if pid == "C02":
            opts["variants"] = 3
        seeds = campaign.run_seeds(a.seed + hash(pid) % 1000 if False else a.seed + int(pid[1:]), n)
        results = {}
        ctx = mp.get_context("spawn")
        for label, workers in (("pool16", 16), ("pool3", 3)):
            with ProcessPoolExecutor(max_workers=workers, mp_context=ctx, initializer=campaign._child_init, initargs=(ctx.Value("i", 0), None)) as ex:
                futs = {s: ex.submit(_one, cfg["mod"], s, tier, opts) for s in seeds}
                results[label] = {s: f.result(timeout=1800) for s, f in futs.items()}
        for label, hs in (("fresh_hash0", 0), ("fresh_hash_random", 424242)):
            with ThreadPoolExecutor(max_workers=12) as tp:
                futs = {s: tp.submit(_fresh, cfg["mod"], s, tier, opts, hs + i) for i, s in enumerate(seeds)}
                results[label] = {s: f.result() for s, f in futs.items()}
        for s in seeds:
            total += 1
            ref = results["pool16"][s]
            for label in results:
                r = results[label][s]
                same = all(r.get(k) == ref.get(k) for k in ("status", "event_digest", "interleavings", "task_orders", "clause", "plan_digest"))
                if not same:
                    failures.append((pid, s, label, {k: (ref.get(k), r.get(k)) for k in ("status", "event_digest", "plan_digest") if r.get(k) != ref.get(k)}))
        print(f"[selftest determinism] {pid}/{tier}: {len(seeds)} seeds x 4 environments (16-worker pool, 3-worker pool, fresh interpreters PYTHONHASHSEED=0 / other), "
              f"statuses {sorted(set(r['status'] for r in results['pool16'].values()))}, failures so far {len(failures)}", flush=True)
    for f in failures[:10]:
        print("[selftest determinism] DIVERGED", f)
    print(f"[selftest determinism] {total} seeds compared, {len(failures)} divergences, {time.time() - t0:.0f}s")
    return 0 if not failures else 2


def sensitivity(a) -> int:
    """Every mutant under /verif/mutants/*.patch must make the check named in its first line ('# check: C05 [args]') exit 1."""
    t0 = time.time()
    res = []
    for path in sorted(glob.glob(os.path.join(VERIF, "mutants", "*.patch"))):
        head = open(path).readline().strip()
        if not head.startswith("# check:"):
            continue
        parts = head[len("# check:"):].split()
        targets = [p for p in parts if p.startswith("C")]
        extra = [p for p in parts if not p.startswith("C")]
        caught = []
        for pid in targets:
            p = subprocess.run([os.path.join(VERIF, "tools", "with_patch.sh"), path, pid, "--tier", "quick", "--no-minimise"] + extra, capture_output=True, text=True, timeout=3600)
            rc = p.returncode
            caught.append((pid, rc))
            if rc == 1:
                break
        ok = any(rc == 1 for _, rc in caught)
        res.append((os.path.basename(path), caught, ok))
        print(f"[selftest sensitivity] {os.path.basename(path)}: {caught} -> {'CAUGHT' if ok else 'MISSED'}", flush=True)
    missed = [r for r in res if not r[2]]
    print(f"[selftest sensitivity] {len(res)} mutants, {len(missed)} missed, {time.time() - t0:.0f}s")
    return 0 if not missed else 2


def main(a) -> int:
    if a.sub == "determinism":
        return determinism(a)
    if a.sub == "sensitivity":
        return sensitivity(a)
    print("usage: check selftest determinism|sensitivity")
    return 2
