"""Driver: executes one *run* (one fresh AsyncGraph, one or more episodes) under the simrex kernel."""
from __future__ import annotations

import random
import time as _rt
from typing import Any, Dict, List, Optional

import numpy as onp

from . import kernel as km
from . import probes, seams
from .kernel import K
from .spec import build_nodes, dist_support

DEFAULT_BUDGET = 300_000

STRATEGY_MENU = [
    ({"name": "rr"}, 1),
    ({"name": "uniform"}, 4),
    ({"name": "pct", "d": 0}, 1),
    ({"name": "pct", "d": 2}, 2),
    ({"name": "pct", "d": 3}, 1),
    ({"name": "starve", "w": 150, "frac": 0.4}, 2),
    ({"name": "user", "eager": True}, 2),
    ({"name": "user", "eager": False}, 2),
    ({"name": "burst", "q": 12}, 2),
]


def draw_strategy(rng: random.Random, menu=None) -> dict:
    menu = menu or STRATEGY_MENU
    tot = sum(w for _, w in menu)
    x = rng.random() * tot
    for s, w in menu:
        x -= w
        if x <= 0:
            return dict(s)
    return dict(menu[-1][0])


def gen_episode(rng: random.Random, eps_id: int, api: Optional[str] = None, nsteps: Optional[int] = None, faults: bool = True,
                menu=None, rtf_choices=(0, 0, 0.5, 1, 20), override_p: float = 0.3, endings=("stop", "stop", "stop2", "none"), open_loop: bool = False) -> dict:
    api = api or rng.choice(["gym", "gym", "run"])
    nsteps = nsteps if nsteps is not None else rng.randint(3, 12)
    if open_loop:
        rtf_choices = tuple(x for x in rtf_choices if x > 0) or (1,)
    ep = dict(eps_id=eps_id, api=api, nsteps=nsteps, ending=rng.choice(list(endings)), rtf=rng.choice(list(rtf_choices)),
              strategy=draw_strategy(rng, menu), sseed=rng.randrange(2**31), stall_p=0.0, stall_max=0.0, slow_user=None, override=None,
              fair_k=rng.choice([16, 64, 256]))
    if api == "gym":
        mode = rng.random()
        if mode < override_p:
            ep["override"] = [rng.random() < 0.5 for _ in range(nsteps)]
    if faults:
        if rng.random() < 0.4:
            ep["stall_p"] = rng.choice([0.01, 0.03, 0.1])
            ep["stall_max"] = rng.choice([0.001, 0.02, 0.3])
        if rng.random() < 0.25:
            ep["slow_user"] = [rng.choice([0.0, 0.0, 0.01, 0.2]) for _ in range(nsteps + 3)]
    return ep


def _np(x):
    return onp.asarray(x)


def obs_digest(ss) -> tuple:
    """Canonical, hashable view of a supervisor StepState as received by the user."""
    ins = []
    for name in sorted(ss.inputs.keys()):
        i = ss.inputs[name]
        seq = _np(i.seq)
        real = seq >= 0
        ins.append((name, tuple(int(v) if v >= 0 else -1 for v in seq), tuple(onp.where(real, _np(i.ts_sent), 0).astype(onp.float32).tolist()),
                    tuple(onp.where(real, _np(i.ts_recv), 0).astype(onp.float32).tolist()), tuple(_np(i.data.seq).tolist()), tuple(_np(i.data.h).tolist())))
    return (int(_np(ss.eps)), int(_np(ss.seq)), float(onp.float32(_np(ss.ts))), tuple(_np(ss.rng).reshape(-1).tolist()), int(_np(ss.state.h)),
            int(_np(ss.state.n)), int(_np(ss.state.bad)), tuple(ins))


class EpisodeOut:
    def __init__(self, plan_ep):
        self.plan = plan_ep
        self.status = "ok"  # ok | deadlock | livelock | task_error | exception
        self.detail = ""
        self.stall_snapshot = None
        self.calls: List[str] = []
        self.calls_returned = 0
        self.obs: List[tuple] = []
        self.overridden: List[int] = []  # supervisor ticks whose step was overridden by the user
        self.record = None
        self.mid_record = None  # record fetched in the middle of the episode (plan: mid_record)
        self.record_error = None
        self.trace: List[dict] = []
        self.stopped = False
        self.gs0 = None
        self.t_begin = self.t_end = None  # virtual wall-clock bracket of the episode (start of its first call .. return of stop())


class RunOut:
    def __init__(self):
        self.episodes: List[EpisodeOut] = []
        self.status = "ok"
        self.detail = ""
        self.harness_error = None
        self.stats: dict = {}
        self.task_errors: list = []
        self.decisions: List[int] = []
        self.widths: List[int] = []
        self.nodes = None
        self.graph = None
        self.gs0 = None
        self.warm_s = 0.0
        self.run_s = 0.0
        self.task_seq = {}
        self.last_gs = None


def _call(out: EpisodeOut, name: str, fn, *a, budget=DEFAULT_BUDGET, slow=None):
    if slow:
        K.count("slow_user")
        K.sleep(slow)
    out.calls.append(name)
    K.call_begin(name, budget)
    r = fn(*a)
    K.call_end()
    out.calls_returned += 1
    return r


def execute(plan: dict, replay: Optional[dict] = None, keep_graph: bool = False, after_build=None) -> RunOut:
    """Execute a run plan. Never raises for rex failures (they are classified in the result)."""
    import jax
    import rex.constants as const
    from rex.asynchronous import AsyncGraph

    ro = RunOut()
    spec = plan["spec"]
    t0 = _rt.time()
    K.begin_run(fair_k=plan.get("fair_k", 64), line_rate=plan.get("line_rate", 0.0), line_seed=plan["seed"] ^ 0x5151, fault_seed=plan["seed"] ^ 0xFA17,
                replay=replay, hot_rate=plan.get("hot_rate", 0.0), spin_guard=bool(plan.get("spin_guard")), pause_rate=plan.get("pause_rate", 0.0))
    comp_rng = random.Random(plan["seed"] ^ 0xC0)
    try:
        try:
            nodes = build_nodes(spec, trace=plan.get("trace", True), hash_recv=plan.get("hash_recv", True))
            if after_build is not None:
                after_build(nodes)
            sup = nodes[spec["nodes"][spec["sup"]]["name"]]
            clock = const.Clock.SIMULATED if plan.get("clock", "sim") == "sim" else const.Clock.WALL_CLOCK
            g = AsyncGraph(nodes=nodes, supervisor=sup, clock=clock, real_time_factor=0 if clock == const.Clock.SIMULATED else 1.0)
            gs0 = g.init(jax.random.PRNGKey(plan["seed"] & 0x7FFFFFFF))
            rs = plan.get("record", dict(params=True, rng=True, inputs=True, state=True, output=True))
            g.set_record_settings(**rs)
            g.warmup(gs0, jit_step={nd["name"]: bool(nd.get("jit", True)) for nd in spec["nodes"]})
            probs = seams.tripwires(g)
            if probs:
                raise km.HarnessError("; ".join(probs))
            if clock == const.Clock.WALL_CLOCK:
                _wrap_comp_delays(g, spec, comp_rng)
        except km.SimAbort:
            raise
        except km.HarnessError:
            raise
        except Exception as e:
            import traceback

            ro.status = "build_error"
            ro.detail = "".join(traceback.format_exception(None, e, e.__traceback__))[-1500:]
            return ro
        ro.nodes, ro.gs0 = nodes, gs0
        plan = dict(plan, _ro=ro)
        ro.warm_s = _rt.time() - t0
        probes.clear_trace()
        t1 = _rt.time()
        for ep in plan["episodes"]:
            eo = EpisodeOut(ep)
            ro.episodes.append(eo)
            _episode(g, gs0, sup, ep, eo, clock, const, plan)
            prev = getattr(eo, "last_gs", None)
            if prev is not None:
                ro.last_gs = prev
            if eo.status != "ok":
                ro.status = eo.status
                ro.detail = eo.detail
                break
        ro.run_s = _rt.time() - t1
        if keep_graph:
            ro.graph = g
    except km.HarnessError as e:
        ro.harness_error = str(e)
        ro.status = "harness_error"
    finally:
        ro.task_errors = list(K.task_errors)
        stall = K.stall
        try:
            ro.stats = K.end_run()
        except km.HarnessError as e:
            ro.harness_error = str(e)
            ro.status = "harness_error"
        # captured after end_run: the final drain takes decisions too, and a replay must be able to follow them
        ro.decisions, ro.widths = list(K.decisions), list(K.widths)
        ro.task_seq = {k: list(v) for k, v in K.task_seq.items()}
        if stall is not None and stall.kind == "replay-diverged":
            ro.status = "replay_diverged"
            ro.detail = stall.detail
    if ro.status == "ok" and ro.task_errors:
        ro.status = "task_error"
        ro.detail = repr(ro.task_errors[0])[:1500]
    return ro


def _wrap_comp_delays(g, spec, comp_rng):
    """WALL_CLOCK: computation time is a virtual sleep wrapped around the (documented-as-wrappable) async_step."""
    for nd in spec["nodes"]:
        w = g._async_nodes[nd["name"]]
        sup_ = dist_support(nd["dist"])
        per = 1.0 / nd["rate"]

        def mk(orig, sup_=sup_, per=per):
            def wrapped(ss):
                d = comp_rng.choice(sup_) if sup_ else comp_rng.random() * 0.6 * per
                K.count("wall_comp_sleep")
                K.sleep(max(d, 1e-5))
                return orig(ss)

            return wrapped

        w.async_step = mk(w.async_step)


def _episode(g, gs0, sup, ep, eo: EpisodeOut, clock, const, plan):
    import jax

    K.fair_k = ep.get("fair_k", plan.get("fair_k", 64))
    K.set_strategy(ep["strategy"], ep["sseed"])
    K.set_stalls(ep.get("stall_p", 0.0), ep.get("stall_max", 0.0))
    if clock == const.Clock.SIMULATED:
        g.real_time_factor = ep.get("rtf", 0)
    for op in ep.get("reconfig") or []:
        # the user changes an *expected* delay between two episodes (phases are documented to be re-read at every reset)
        if op[0] == "node":
            g.nodes[op[1]].set_delay(delay=op[2])
        else:
            g.nodes[op[1]].inputs[op[2]].set_delay(delay=op[3])
        K.count("reconfig_between_episodes")
    j = ep["eps_id"]
    gs_init = gs0.replace(eps=onp.int32(j), rng=jax.tree_util.tree_map(lambda k: jax.random.fold_in(k, j), gs0.rng)) if ep.get("fold_rng", True) else gs0.replace(eps=onp.int32(j))
    carried = getattr(plan.get("_ro"), "last_gs", None)
    if ep.get("carry") and carried is not None:
        # the user starts this episode from the graph state the previous episode ended with (seq/ts/state/inputs carried over),
        # as rex's own test fixtures do; only the episode id is replaced
        K.count("carry_over_start")
        gs_init = carried.replace(eps=onp.int32(j))
    eo.gs0 = gs_init
    eo.t_begin = K.now  # virtual wall clock when the user starts this episode
    slow = ep.get("slow_user") or []
    budget = ep.get("budget", DEFAULT_BUDGET)

    def sl(i):
        return slow[i] if i < len(slow) else None

    to = ep.get("timeout")  # optional timeout argument of reset()/run()/stop() (virtual seconds)
    if to:
        K.count("timeout_args")

    def mid(i, gs_):
        # the user asks for the record in the middle of the episode (after step i) and goes on; only once every node and input is active
        # (get_record() on a node without a step raises on the pinned tree, DESIGN 6 D5)
        if ep.get("mid_record") is not None and i >= ep["mid_record"] and eo.mid_record is None and _all_active(gs_):
            K.count("mid_episode_get_record")
            try:
                eo.mid_record = g.get_record()
            except km.SimAbort:
                raise
            except Exception as e:  # (D5: an input without a message for the recorded steps, e.g. under max_records)
                eo.mid_record = False
                eo.record_error = repr(e)[:300]

    try:
        if ep["api"] == "gym":
            gs, ss = _call(eo, "reset", (lambda s_: g.reset(s_, timeout=to)) if to else g.reset, gs_init, budget=budget, slow=sl(0))
            eo.obs.append(obs_digest(ss))
            ov = (list(ep.get("override") or []) + [False] * ep["nsteps"])[: ep["nsteps"]]
            for i in range(ep["nsteps"]):
                if ov[i]:
                    new_ss, out = probes.user_override(sup, ss)
                    eo.overridden.append(int(onp.asarray(ss.seq)))
                    gs, ss = _call(eo, "step_override", g.step, gs, new_ss, out, budget=budget, slow=sl(i + 1))
                elif ep.get("pass_own_result"):
                    new_ss, out = sup.step(ss)  # the supervisor's own step result passed back by the user
                    gs, ss = _call(eo, "step_own", g.step, gs, new_ss, out, budget=budget, slow=sl(i + 1))
                else:
                    gs, ss = _call(eo, "step", g.step, gs, budget=budget, slow=sl(i + 1))
                eo.obs.append(obs_digest(ss))
                mid(i, gs)
            extra = 0
            while ep.get("until_active") and extra < 15 and not _all_active(gs):
                gs, ss = _call(eo, "step", g.step, gs, budget=budget)
                eo.obs.append(obs_digest(ss))
                extra += 1
        elif ep["api"] == "run":
            gs = gs_init
            for i in range(ep["nsteps"]):
                gs = _call(eo, "run", (lambda s_: g.run(s_, timeout=to)) if to else g.run, gs, budget=budget, slow=sl(i))
                mid(i, gs)
            extra = 0
            while ep.get("until_active") and ep["nsteps"] > 0 and extra < 15 and not _all_active(gs):
                gs = _call(eo, "run", g.run, gs, budget=budget)
                extra += 1
        elif ep["api"] == "stop_only":
            pass
        try:
            eo.last_gs = gs
        except NameError:
            pass
        ending = ep.get("ending", "stop")
        if ending in ("stop", "stop2"):
            _probe_stop(g, sup)
            _call(eo, "stop", (lambda: g.stop(timeout=to)) if to else g.stop, budget=budget, slow=sl(ep["nsteps"] + 1))
            eo.stopped = True
            eo.t_end = K.now
            if ending == "stop2":
                _call(eo, "stop", g.stop, budget=budget)
            if ep["api"] == "gym" or (ep["api"] == "run" and ep["nsteps"] > 0):
                try:
                    eo.record = g.get_record()
                except km.SimAbort:
                    raise
                except Exception as e:
                    eo.record_error = repr(e)[:300]
        if eo.stopped:
            K.drain()  # a stopped graph becomes quiescent; one that is left running ("ending: none") is not drained
        eo.trace = probes.take_trace()
    except km.SimAbort:
        st = K.stall
        eo.status = st.kind if st is not None else "aborted"
        eo.detail = f"call={st.call if st else None} {st.detail if st else ''}"
        eo.stall_snapshot = st.snapshot if st is not None else None
    except km.HarnessError:
        raise
    except Exception as e:
        import traceback

        eo.status = "exception"
        eo.detail = "".join(traceback.format_exception(None, e, e.__traceback__))[-1500:]


def _all_active(gs) -> bool:
    """True when, in the graph state returned to the user, every node has stepped and every input has received a message
    (episodes that end earlier cannot be retrieved with get_record() on the pinned tree: TypeError on an empty list, DESIGN 6 D5)."""
    try:
        for name, seq in gs.seq.items():
            if int(onp.asarray(seq)) < 2:
                return False
        for name, ins in gs.inputs.items():
            for iname, i in ins.items():
                if int(onp.asarray(i.seq)[-1]) < 0:
                    return False
    except Exception:
        return True
    return True


def _probe_stop(g, sup):
    """Coverage probes only (read-only peek at private state): in which state of the user/supervisor handshake does stop() arrive?"""
    try:
        syn = g._synchronizer
        q = getattr(syn, "_q_act", None)
        t = g._async_nodes[sup.name]._executor.t
        waiting = t.state == km.BLOCKED and isinstance(t.waiting_on, km.SimFuture)
        if q is not None and len(q) == 0:
            K.count("stop_while_action_queue_empty")
        if waiting:
            K.count("stop_while_supervisor_waiting")
        elif t.state == km.RUNNABLE:
            K.count("stop_while_supervisor_runnable")
        else:
            K.count("stop_while_supervisor_idle")
    except Exception:
        pass
