"""Probe nodes: pure-JAX nodes whose state is a hash chain over everything a step can observe.

The same `step` runs eagerly, AOT-jitted (threaded runtime) and traced inside cond/scan (compiled runtime).
Optional host trace through an ordered io_callback: one event per *executed* step.
"""
from __future__ import annotations

import jax
import jax.numpy as jnp
import numpy as onp
from flax import struct
from jax.experimental import io_callback

from rex.base import Base, StepState
from rex.node import BaseNode


@struct.dataclass
class PState(Base):
    idx: jax.Array  # int32 node id (kept in the state so the step's HLO is the same for all nodes)
    n: jax.Array  # int32 steps taken
    h: jax.Array  # uint32 hash chain
    bad: jax.Array  # int32 in-graph invariant failures


@struct.dataclass
class PParams(Base):
    srcs: dict  # input name -> int32 id of the producer (data, not a constant: keeps the HLO node-independent)


@struct.dataclass
class POut(Base):
    src: jax.Array  # int32 producer id
    eps: jax.Array  # int32 episode
    seq: jax.Array  # int32 tick
    h: jax.Array  # uint32 state hash after the step


_MULT = onp.array([0x9E3779B1, 0x85EBCA77, 0xC2B2AE3D, 0x27D4EB2F, 0x165667B1, 0xD3A2646D, 0xFD7046C5, 0xB55A4F09,
                   0x2545F491, 0x9E3779B9, 0x7FEB352D, 0x846CA68B, 0x68E31DA5, 0xB5297A4D, 0x1B56C4E9, 0x8DA6B343], dtype=onp.uint32)


def _bits(x):
    x = jnp.asarray(x)
    if jnp.issubdtype(x.dtype, jax.dtypes.prng_key):
        x = jax.random.key_data(x)
    if jnp.issubdtype(x.dtype, jnp.floating):
        x = x.astype(jnp.float32)
        x = jnp.where(x == 0, jnp.float32(0.0), x)  # canonicalise -0.0 (x + 0.0 is folded away by XLA)
        x = jax.lax.bitcast_convert_type(x, jnp.uint32)
    return x.astype(jnp.uint32).reshape(-1)


def mix(h, x):
    """Order-sensitive fold of the 32-bit patterns of x into h (vectorised: no scan, cheap to compile)."""
    v = _bits(x)
    n = v.shape[0]
    m = jnp.asarray(onp.resize(_MULT, n) + onp.arange(n, dtype=onp.uint32) * onp.uint32(2))
    s = jnp.sum((v ^ (v >> 15)) * m, dtype=jnp.uint32)
    h = (h ^ s) * jnp.uint32(16777619)
    h = h ^ (h >> 13)
    h = h * jnp.uint32(0x5BD1E995)
    return h ^ (h >> 15)


TRACE: list = []  # host trace events, appended from the io_callback
TRACING = {"on": True}


def _host_cb(*arrs):
    TRACE.append(tuple(onp.asarray(a).copy() for a in arrs))
    return onp.int32(0)


def clear_trace():
    TRACE.clear()


def take_trace():
    """Returns list of event dicts and clears the buffer."""
    try:
        jax.effects_barrier()
    except Exception:
        pass
    evs = []
    for t in TRACE:
        idx, eps, seq, ts, rng, h0, h1 = t[:7]
        ins = []
        rest = t[7:]
        for j in range(0, len(rest), 7):
            iseq, sent, recv, dsrc, deps, dseq, dh = rest[j:j + 7]
            real = onp.asarray(iseq) >= 0
            sent, recv = onp.where(real, sent, 0), onp.where(real, recv, 0)
            ins.append(dict(seq=[int(v) if v >= 0 else -1 for v in iseq], sent=_fbits(sent), recv=_fbits(recv), dsrc=dsrc.tolist(),
                            deps=deps.tolist(), dseq=dseq.tolist(), dh=dh.tolist()))
        evs.append(dict(node=int(idx), eps=int(eps), seq=int(seq), ts=_fbits(ts)[0], rng=onp.asarray(rng).reshape(-1).tolist(),
                        h0=int(h0), h1=int(h1), inputs=ins))
    TRACE.clear()
    return evs


def _fbits(a):
    a = onp.asarray(a, dtype=onp.float32).reshape(-1)
    a = onp.where(a == 0, onp.float32(0.0), a)
    return a.view(onp.uint32).tolist()


def core_step(ss: StepState, hash_recv: bool = True):
    """The probe's pure step: returns (new_ss, out, h_before, h_after)."""
    s = ss.state
    h = s.h
    h0 = h
    h = mix(h, ss.eps)
    h = mix(h, ss.seq)
    h = mix(h, ss.ts)
    h = mix(h, ss.rng)
    bad = s.bad
    for name in sorted(ss.inputs.keys()):
        i = ss.inputs[name]
        iseq = jnp.where(i.seq < 0, -1, i.seq)
        real = i.seq >= 0
        h = mix(h, iseq)
        h = mix(h, jnp.where(real, i.ts_sent, 0.0))
        if hash_recv:
            h = mix(h, jnp.where(real, i.ts_recv, 0.0))
        h = mix(h, i.data.src)
        h = mix(h, i.data.eps)
        h = mix(h, i.data.seq)
        h = mix(h, i.data.h)
        # in-graph invariants
        bad = bad + jnp.sum(jnp.where(real, (i.data.seq != i.seq).astype(jnp.int32), (i.data.seq != -1).astype(jnp.int32)))
        bad = bad + jnp.sum(jnp.where(real, (i.data.eps != ss.eps).astype(jnp.int32), 0))
        bad = bad + jnp.sum((i.data.src != ss.params.srcs[name]).astype(jnp.int32))
        if i.seq.shape[0] > 1:
            both = jnp.logical_and(real[1:], real[:-1])
            bad = bad + jnp.sum(jnp.where(both, (i.seq[1:] <= i.seq[:-1]).astype(jnp.int32), 0))
            bad = bad + jnp.sum(jnp.logical_and(real[:-1], jnp.logical_not(real[1:])).astype(jnp.int32))  # real before unfilled
        bad = bad + jnp.sum(jnp.where(real, (i.ts_recv < i.ts_sent - 2e-6).astype(jnp.int32), 0))
    bad = bad + (s.n != ss.seq).astype(jnp.int32)  # state chain: my n-th step has tick n
    new_rng, k = jax.random.split(ss.rng)
    h = mix(h, jax.random.bits(k, dtype=jnp.uint32))
    new_state = PState(idx=s.idx, n=s.n + 1, h=h, bad=bad)
    out = POut(src=s.idx, eps=jnp.asarray(ss.eps, jnp.int32), seq=jnp.asarray(ss.seq, jnp.int32), h=h)
    return ss.replace(rng=new_rng, state=new_state), out, h0, h


class ProbeNode(BaseNode):
    def __init__(self, *a, idx: int = 0, trace: bool = True, hash_recv: bool = True, ts_shift: float = 0.0, **kw):
        super().__init__(*a, **kw)
        self.stop_result = True  # what the optional stop() hook reports (False/None: "failed to stop", which the runtime only warns about)
        self.ts_shift = float(ts_shift)  # > 0: the step moves step_state.ts forward (documented: "adjust to the time the sensor data was taken")
        self.idx = idx
        self.trace = trace
        self.hash_recv = hash_recv
        self.delay_override = None  # {input name: delay} -> returned by init_delays (C10: "through init_delays/params")

    def init_delays(self, rng=None, graph_state=None):
        if getattr(self, "delay_incomplete", False):
            return dict(self.delay_override or {})  # an incomplete dictionary is documented as allowed: unnamed connections keep their distribution's delay
        delays = super().init_delays(rng, graph_state)
        if self.delay_override:
            delays.update(self.delay_override)
        return delays

    def stop(self, timeout=None):
        return self.stop_result

    def init_params(self, rng=None, graph_state=None):
        return PParams(srcs={name: jnp.int32(c.output_node.idx) for name, c in self.inputs.items()})

    def init_state(self, rng=None, graph_state=None):
        return PState(idx=jnp.int32(self.idx), n=jnp.int32(0), h=jnp.uint32(0x811C9DC5 + self.idx), bad=jnp.int32(0))

    def init_output(self, rng=None, graph_state=None):
        return POut(src=jnp.int32(self.idx), eps=jnp.int32(-1), seq=jnp.int32(-1), h=jnp.uint32(0))

    def step(self, ss: StepState):
        new_ss, out, h0, h1 = core_step(ss, self.hash_recv)
        # this step function belongs to the node object `self` (a per-instance Python attribute, constant in the traced program): it must only
        # ever be executed on its own node's state; the host trace attributes the execution to the object whose step ran
        own = (ss.state.idx != jnp.int32(self.idx)).astype(jnp.int32)
        new_ss = new_ss.replace(state=new_ss.state.replace(bad=new_ss.state.bad + own))
        if self.trace:
            args = [jnp.int32(self.idx), jnp.asarray(ss.eps, jnp.int32), jnp.asarray(ss.seq, jnp.int32), jnp.asarray(ss.ts, jnp.float32),
                    jax.random.key_data(ss.rng) if jnp.issubdtype(ss.rng.dtype, jax.dtypes.prng_key) else ss.rng, h0, h1]
            for name in sorted(ss.inputs.keys()):
                i = ss.inputs[name]
                args += [i.seq, i.ts_sent, i.ts_recv, i.data.src, i.data.eps, i.data.seq, i.data.h]
            z = io_callback(_host_cb, jax.ShapeDtypeStruct((), jnp.int32), *args, ordered=True)
            out = out.replace(seq=out.seq + z)  # keeps the callback attached to the data flow
        if self.ts_shift:
            new_ss = new_ss.replace(ts=(new_ss.ts + jnp.float32(self.ts_shift)).astype(jnp.float32))
        return new_ss, out


def user_override(node: ProbeNode, ss: StepState):
    """What a user would pass to graph.step(gs, step_state, output): computed without running node.step (no trace event)."""
    new_ss, out, _, _ = core_step(ss, node.hash_recv)
    return new_ss, out
